"""Sequential executions through policy stacks: specs/Failsafe.tla behaviours replayed on the real library.
Shared by C01 C02 C10 C11 C16 C17 (each with its own stack family, bounds and field mask)."""
import itertools, json, vlib, pipeline
from vlib import TSet, Raw
from concurrent.futures import ThreadPoolExecutor

NIL = dict(op="nil", ch=[])
def leaf(x): return dict(op=x, ch=[])
def out(r, e=None, d=0): return dict(r=r, e=(e if isinstance(e, dict) else leaf(e)) if e else NIL, d=d)
def W(x): return dict(op="W", ch=[x if isinstance(x, dict) else leaf(x)])                      # fmt.Errorf("%w", x)
def J(x, y): return dict(op="J", ch=[x if isinstance(x, dict) else leaf(x), y if isinstance(y, dict) else leaf(y)])   # errors.Join(x, y)
def cE(v): return dict(t="errors", v=v)
def cR(v): return dict(t="result", v=v)
def cIf(v): return dict(t="if", v=v)
def cT(v): return dict(t="types", v=v)

BR1 = dict(fthr=1, fcap=1, frate=0, fexec=0, period=0, sthr=0, scap=0, delay=1000)
BR2 = dict(fthr=2, fcap=2, frate=0, fexec=0, period=0, sthr=0, scap=0, delay=1000)
BR23 = dict(fthr=2, fcap=3, frate=0, fexec=0, period=0, sthr=2, scap=2, delay=0)   # re-closes: delay 0, needs 2 successes
BRT = dict(fthr=2, fcap=2, frate=0, fexec=2, period=20, sthr=0, scap=0, delay=3)    # 2 failures within 20 units; open for 3 units
BRR2 = dict(fthr=0, fcap=0, frate=50, fexec=2, period=20, sthr=0, scap=0, delay=1)   # 50 % of 2: a half-open window of 1 failure + 1 success is AT the threshold
BRR = dict(fthr=0, fcap=0, frate=50, fexec=2, period=20, sthr=2, scap=3, delay=2)   # 50 % of >= 2 executions within 20 units; 2 of 3 trial successes close it

def retry(max=2, h=(), a=(), rlf=False, dly=0, maxd=0, rdf=False): return dict(k="retry", max=max, h=TSet(h), a=TSet(a), rlf=rlf, dly=dly, maxd=maxd, rdf=rdf)
def cb(id, cfg, h=(), dfn=-1): return dict(k="cb", id=id, cfg=cfg, h=TSet(h), dfn=dfn)
def rl(id, m, per=0): return dict(k="rl", id=id, m=m, per=per)
def bh(id, max, pre=0): return dict(k="bh", id=id, max=max, pre=pre)
def fb(fr="RF", fe=None, h=()): return dict(k="fb", fr=fr, fe=leaf(fe) if fe else NIL, h=TSet(h))
def cache(id, key="k", ifc=()): return dict(k="cache", id=id, key=key, ifc=TSet(ifc))
def to(): return dict(k="to")
def hg(maxh=1, c=(), delay=1): return dict(k="hg", maxh=maxh, c=TSet(c), delay=delay)

CATALOG = {
    "rp":    retry(),                                   # default: 2 retries, any error
    "rp1":   retry(1),
    "rp0":   retry(0),
    "rpH":   retry(1, h=[cR("R1")]),                     # also retries on result R1
    "rpHE":  retry(2, h=[cE("E1")]),                     # only E1 is a failure
    "rpA":   retry(2, a=[cE("E2")]),                     # aborts on E2
    "rpAR":  retry(2, h=[cR("R1")], a=[cR("R1")]),       # abort condition overlaps the handled result
    "rpL":   retry(1, rlf=True),
    "rpAM":  retry(2, a=[cR("R1"), cE("E2")], h=[cR("R1")]),   # abort conditions of two kinds (a result and an error), registered by two calls
    "rpA2":  retry(2, a=[cE("E1"), cE("E2")]),           # two abort errors in one registration
    "rpH2":  retry(1, h=[cE("E1"), cE("E2")]),           # two handled errors in one registration (E3 etc. unhandled)
    "rpT":   retry(1, h=[cT("TV")]),                     # only errors of type TV are failures (HandleErrorTypes alone)
    "rpTR":  retry(2, h=[cT("TP"), cR("R1")], a=[cT("TV")]),   # handled type + result, aborts on a type
    "rpU":   retry(-1, a=[cE("E2")]),                    # unlimited
    "rp3":   retry(3),
    "rpDF":  retry(2, h=[cR("R1")], rdf=True),             # a delay function that reads LastError of the attempt that just failed (also retries on R1)
    "rpW":   retry(3, dly=2),                            # three retries two units apart
    "rpD":   retry(3, dly=2, maxd=3),                    # max duration 3 units with a 2 unit delay
    "rpUD":  retry(-1, dly=1, maxd=2),                   # unlimited retries bounded only by the max duration
    "rpDL":  retry(2, dly=3, maxd=4, rlf=True),
    "rpDS":  retry(4, dly=3, maxd=2),                    # a max duration SHORTER than the delay (the delay is clipped to what is left)
    "cbA":   cb("cbA", BR1),
    "cbB":   cb("cbB", BR2),
    "cbC":   cb("cbC", BR23, h=[cE("E1")]),
    "cbT":   cb("cbT", BRT),                              # time-based window, short open delay: reopening / trial executions inside a retry loop
    "cbR":   cb("cbR", BRR),
    "cbDF":  cb("cbDF", BRT, dfn=5),                      # a delay function that asks for 5 units (the configured delay is 3): also on re-opening after a failed trial
    "cbR2":  cb("cbR2", BRR2),
    "rl2":   rl("rl2", 2),
    "rlP":   rl("rlP", 1, per=3),                        # one permit per period of 3 units: refusals and admissions across period boundaries
    "bh1":   bh("bh1", 1),
    "bh2p":  bh("bh2p", 2, pre=1),
    "bh0":   bh("bh0", 0),                               # no concurrency allowed at all: every execution is refused
    "fbR":   fb(),
    "fbE":   fb(fr="R0", fe="EFB"),
    "fbH":   fb(h=[cE("E1")]),
    "fbH2":  fb(h=[cE("E2"), cE("E1")]),                 # two handled errors in one registration
    "fbT":   fb(h=[cT("TP")]),                           # only errors of type *TP are handled
    "cbTy":  cb("cbTy", BR1, h=[cT("TV")]),               # a breaker that only counts TV errors
    "fbX":   fb(h=[cE("ErrExceeded"), cR("R1")]),
    "fbO":   fb(h=[cE("ErrOpen")]),
    "fbHE":  fb(fr="R0", fe="EFB", h=[cE("E1")]),        # its own output is an error it does not handle: verdict success
    "fbRR":  fb(fr="R1", h=[cR("R1"), cE("E1")]),        # its own output is a result it handles: verdict failure
    "fbZ":   fb(h=[cE("E1"), cR("R0")]),
    "fbOR":  fb(h=[cR("R1")]),                          # only a handled result: every error is still a failure (default rule)                 # handled zero result next to a narrowed error condition
    "cbX":   cb("cbX", BR1, h=[cE("ErrExceeded")]),
    "cbHR":  cb("cbHR", BR2, h=[cR("R1")]),               # a breaker that counts result R1 as a failure
    "rpHL":  retry(1, h=[cR("R1")], rlf=True),           # retries on R1 and returns the last R1 when exhausted       # a breaker that only counts exhausted retries
    "cK":    cache("cK"),
    "cIf":   cache("cIf", ifc=[cIf("p1")]),
    "cIfE":  cache("cIfE", ifc=[cE("E1")]),              # negative caching: stores the (zero) result of E1 failures
    "cIf2":  cache("cIf2", ifc=[cIf("p1"), cIf("p2")]),   # two CacheIf registrations: either one makes a result cacheable
    "cNoKey": cache("cNoKey", key=""),
    "to":    to(),
    "hg":    hg(),                                      # default: cancel on any result
    "hgR":   hg(1, c=[cR("R1")]),                        # only R1 is accepted early
    "hg2E":  hg(2, c=[cE("E2")]),
}

OUTS4 = [out("R0"), out("R1"), out("R0", "E1"), out("R0", "E2")]
OUTS3 = [out("R1"), out("R0", "E1"), out("R0", "E2")]
OUTS_TY = [out("R1"), out("R0", "E1"), out("R0", "TV"), out("R0", "TP"), out("R1", "E1")]     # typed errors next to a sentinel; a handled result WITH an unhandled error
OUTS_WR = [out("R1"), out("R0", W(J("E3", "TP"))), out("R0", J("E1", W("TV"))), out("R0", W("E2"))]      # wrapped and joined shapes
OKOUT = out("R2")


def all_stacks(names, maxdepth, mindepth=1):
    """All sequences over names. At most one hedge policy per stack: a hedge that encloses something that takes time
    (another hedge's delay) runs attempts concurrently, which is the concurrent hedge model's business (C09), not Seq's."""
    res = []
    for d in range(mindepth, maxdepth + 1):
        for t in itertools.product(names, repeat=d):
            if sum(1 for n in t if CATALOG[n]["k"] == "hg") <= 1:
                res.append(list(t))
    return res


def mc_text(stacks, outs, maxcalls, execs, ctxkeys, invs):
    used = sorted({n for st in stacks for n in st})
    lines = ["---- MODULE MC ----", "EXTENDS FailsafeRef"]
    for n in used:
        lines.append("D_%s == %s" % (n, vlib.tla_value(CATALOG[n])))
    lines.append("MCStacks == {" + ", ".join("<<" + ", ".join("D_" + n for n in st) + ">>" for st in stacks) + "}")
    lines.append("MCOuts == " + vlib.tla_value(TSet(outs)))
    lines.append("MCOk == " + vlib.tla_value(OKOUT))
    lines.append("MCCtxKeys == " + vlib.tla_value(set(ctxkeys)))
    lines.append("====")
    cfg = ("SPECIFICATION Spec\nCONSTANTS\n Stacks <- MCStacks\n Outs <- MCOuts\n OkOut <- MCOk\n MaxCalls = %d\n Execs = %d\n CtxKeys <- MCCtxKeys\n"
           "INVARIANTS %s Emit\nCHECK_DEADLOCK FALSE\n" % (maxcalls, execs, " ".join(invs)))
    return "\n".join(lines) + "\n", cfg

ALL_INVS = ["C16_Completion", "C16_Retry", "C02_Bound", "C02_OnlyAfterFailure", "C02_Single", "C17_Identities", "C17_LastSeenByFn",
            "C10_Fallback", "C10_Outermost", "C11_HitSkipsInner", "C11_StoreIff", "C11_Outermost", "C01_Admission", "NestingRefinement"]


def run_family(ctx, binary, name, stacks, outs=OUTS4, maxcalls=3, execs=2, ctxkeys=("none",), invs=ALL_INVS, entries=1,
               unit_ns=1_000_000, workers=8, simulate=None, depth=None, mode="seq_replay"):
    tla, cfg = mc_text(stacks, outs, maxcalls, execs, ctxkeys, invs)
    d = vlib.stage_specs(ctx, "seq_" + name, tla, cfg)
    kw = dict(timeout=3000, workers=workers, heap="12g")
    if simulate:
        kw.update(simulate=simulate, depth=depth or 60, workers=1)
    res, recs, summ = pipeline.tlc_to_harness(ctx, d, binary, mode, dict(unit_ns=unit_ns, entries=entries), kw, prefix='"{')
    if res["viol"]:
        raise vlib.Inconclusive("specs/Failsafe.tla violates one of its own invariants in family %s (model out of date?):\n%s" % (name, "\n".join(res["tail"][-50:])))
    ctx.traces += summ["n"] * entries
    ctx.nontrivial += summ["nontrivial"]
    if summ.get("sample") and len(ctx.samples) < 3:
        s = summ["sample"]
        ctx.samples.append(dict(family=name, stack=[x["k"] for x in s["stack"]], execs=[dict(script=e["script"], calls=e["calls"], r=e["r"], e=e["e"], success=e["success"], events=[v["ev"] + "@" + str(v["L"]) for v in e["ev"]]) for e in s["execs"]]))
    out_m = []
    for r in recs:
        if r.get("k") == "error":
            raise vlib.Inconclusive("harness error: %s" % r)
        if r.get("k") == "mismatch":
            for mm in r["mis"]:
                out_m.append(dict(tag=mm["tag"], kind=mm["kind"], what=mm["what"], exec=mm["exec"], entry=r["entry"], behaviour=r["behaviour"], family=name))
        if r.get("k") == "mismatch_more":
            for t in r["tags"]:
                tag, kind = t.split("/")
                out_m.append(dict(tag=tag, kind=kind, what="(further mismatch, details suppressed)", exec=-1, entry=r["entry"], behaviour=None, family=name))
    return out_m


def report(ctx, mismatches, accept):
    """accept(m) -> bool: does this mismatch concern the property being checked?"""
    for m in mismatches:
        if not accept(m):
            continue
        b = m["behaviour"]
        stack = [x["k"] + (":" + x["id"] if x.get("id") else "") for x in b["stack"]] if b else []
        sig = "seq:%s:%s:%s" % (m["tag"], m["kind"], "+".join(sorted(set(x["k"] for x in b["stack"]))) if b else m["family"])
        vlib.add_violation(ctx, sig, "%s (stack %s, execution %d, entry point %d)" % (m["what"], stack, m["exec"], m["entry"]),
                           dict(behaviour=b, what=m["what"], exec=m["exec"], entry=m["entry"]))


def run_jobs(ctx, jobs, par=2):
    """jobs: list of kwargs for run_family. Returns all mismatches."""
    allm = []
    with ThreadPoolExecutor(max_workers=par) as ex:
        for f in [ex.submit(run_family, **j) for j in jobs]:
            allm += f.result()
    return allm
