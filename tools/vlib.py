"""Shared machinery for /verif checks: TLC runs, harness build/run, evidence, verdicts.

Exit codes: 0 property held on everything explored (KNOWN-FINDING lines allowed), 1 VIOLATION,
2 inconclusive (tool/build failure, timeout, dead driver) - never a violation.
"""
import json, os, re, shutil, subprocess, sys, time, threading, hashlib

VERIF = os.path.dirname(os.path.dirname(os.path.abspath(__file__)))
REPO = os.environ.get("VERIF_REPO", "/repo")
SPECS = os.path.join(VERIF, "specs")
HARNESS = os.path.join(VERIF, "harness")
TLA_JAR = "/opt/veriftools/tla/tla2tools.jar:/opt/veriftools/tla/CommunityModules-deps.jar"
NCPU = os.cpu_count() or 4

GOENV = dict(GOFLAGS="-mod=mod", GOPROXY="off", GOSUMDB="off", GOTOOLCHAIN="local", GONOSUMCHECK="1",
             GONOSUMDB="*", GOFLAGS_EXTRA="")


class Inconclusive(Exception):
    pass


def seed():
    try:
        return int(os.environ.get("VERIF_SEED", "1"))
    except ValueError:
        return 1


class Ctx:
    """One check run: work dir, counters, samples, violations."""

    def __init__(self, pid, tier, keep_replays=False):
        self.pid = pid
        self.tier = tier
        self.seed = seed()
        self.t0 = time.time()
        self.work = os.path.join(VERIF, ".work", "%s-%d" % (pid, os.getpid()))
        shutil.rmtree(self.work, ignore_errors=True)
        os.makedirs(self.work)
        import glob
        for f in ([] if keep_replays else glob.glob(os.path.join(VERIF, "replays", pid + "-*.json"))):   # replays of earlier runs of this check
            try:
                os.remove(f)
            except OSError:
                pass
        self.states = 0          # TLC distinct states
        self.transitions = 0     # TLC generated states
        self.traces = 0          # real-code behaviours compared / validated
        self.evaluations = 0
        self.nontrivial = 0
        self.samples = []
        self.violations = []     # list of dict(sig=..., detail=..., replay=path)
        self.known_hits = {}
        self.notes = []
        self.tlc_runs = []
        self.assumptions = []
        self.extra = {}

    def cleanup(self):
        shutil.rmtree(self.work, ignore_errors=True)
        try:
            os.rmdir(os.path.join(VERIF, ".work"))
        except OSError:
            pass

    def sub(self, name):
        d = os.path.join(self.work, name)
        os.makedirs(d, exist_ok=True)
        return d


# ----------------------------------------------------------------------------------------------------------
# TLC

def stage_specs(ctx, name, mc_tla=None, mc_cfg=None, extra_files=None):
    d = ctx.sub(name)
    for f in os.listdir(SPECS):
        if f.endswith(".tla") or f.endswith(".cfg"):
            shutil.copy(os.path.join(SPECS, f), d)
    if mc_tla:
        with open(os.path.join(d, "MC.tla"), "w") as fh:
            fh.write(mc_tla)
    if mc_cfg:
        with open(os.path.join(d, "MC.cfg"), "w") as fh:
            fh.write(mc_cfg)
    for k, v in (extra_files or {}).items():
        with open(os.path.join(d, k), "w") as fh:
            fh.write(v)
    return d


_STATS_RE = re.compile(r"(\d+) states generated, (\d+) distinct states found")


def run_tlc(ctx, d, module="MC", cfg=None, workers=None, timeout=600, simulate=None, depth=None,
            line_cb=None, dfs=False, extra=None, heap="8g", allow_fail=False):
    """Run TLC in directory d. line_cb(line) receives every stdout line. Returns dict(ok, out_tail, gen, distinct).
    Raises Inconclusive on tool errors/timeouts. An invariant violation returns ok=False (caller decides)."""
    workers = workers or NCPU
    cmd = ["java", "-XX:+UseParallelGC", "-Xmx" + heap, "-Xss64m"]
    if dfs:
        cmd.append("-Dtlc2.tool.queue.IStateQueue=StateDeque")
    cmd += ["-cp", TLA_JAR, "tlc2.TLC", "-workers", str(workers), "-metadir", os.path.join(d, "meta"),
            "-noGenerateSpecTE", "-nowarning"]
    if cfg:
        cmd += ["-config", cfg]
    if simulate:
        cmd += ["-simulate", simulate]
        if depth:
            cmd += ["-depth", str(depth)]
        cmd += ["-seed", str(ctx.seed)]
    cmd += (extra or [])
    cmd.append(module)
    t0 = time.time()
    p = subprocess.Popen(cmd, cwd=d, stdout=subprocess.PIPE, stderr=subprocess.STDOUT, text=True, bufsize=1 << 20)
    tail = []
    gen = distinct = 0
    killed = []

    def killer():
        killed.append(1)
        p.kill()
    tm = threading.Timer(timeout, killer)
    tm.start()
    viol = False
    violated = []
    err = False
    try:
        for line in p.stdout:
            line = line.rstrip("\n")
            if line_cb and line_cb(line):
                continue
            m = _STATS_RE.search(line)
            if m:
                gen, distinct = int(m.group(1)), int(m.group(2))
            if "is violated" in line or "Error: Action property" in line or "Temporal properties were violated" in line:
                viol = True
                mv = re.search(r"Invariant (\w+) is violated", line)
                if mv:
                    violated.append(mv.group(1))
            if line.startswith("Error:") or "Exception" in line:
                err = True
            tail.append(line)
            if len(tail) > 400:
                del tail[:200]
        p.wait()
    finally:
        tm.cancel()
    dt = time.time() - t0
    shutil.rmtree(os.path.join(d, "meta"), ignore_errors=True)
    rec = dict(dir=os.path.basename(d), module=module, cfg=cfg, gen=gen, distinct=distinct, wall_s=round(dt, 1),
               simulate=simulate, rc=p.returncode)
    ctx.tlc_runs.append(rec)
    if killed:
        raise Inconclusive("TLC timeout after %ds in %s" % (timeout, d))
    if simulate and gen == 0:
        # simulation mode does not print the summary line; rely on caller's own counters
        pass
    ctx.states += distinct
    ctx.transitions += gen
    ok = (p.returncode == 0) and not viol
    if not ok and not viol and not allow_fail:
        raise Inconclusive("TLC failed (rc=%s) in %s:\n%s" % (p.returncode, d, "\n".join(tail[-40:])))
    return dict(ok=ok, viol=viol, violated=violated, tail=tail, gen=gen, distinct=distinct, rc=p.returncode)


def sany(path):
    r = subprocess.run(["java", "-cp", TLA_JAR, "tla2sany.SANY", os.path.basename(path)], cwd=os.path.dirname(path),
                       capture_output=True, text=True, timeout=120)
    return r.returncode == 0 and "Semantic errors" not in r.stdout and "***Parse Error***" not in r.stdout, r.stdout


class TSet(list):
    """A list rendered as a TLA+ set (elements may be unhashable dicts)."""


class Raw(str):
    """A string rendered verbatim as a TLA+ expression."""


def tla_value(v):
    """Python value -> TLA+ expression (dict=record, list=sequence, set/frozenset/TSet=set, bool, int, str)."""
    if isinstance(v, Raw):
        return str(v)
    if isinstance(v, TSet):
        return "{" + ", ".join(tla_value(x) for x in v) + "}"
    if isinstance(v, bool):
        return "TRUE" if v else "FALSE"
    if isinstance(v, int):
        return str(v)
    if isinstance(v, str):
        return '"%s"' % v
    if isinstance(v, dict):
        if not v:
            return "<<>>"
        return "[" + ", ".join("%s |-> %s" % (k, tla_value(x)) for k, x in v.items()) + "]"
    if isinstance(v, (set, frozenset)):
        return "{" + ", ".join(tla_value(x) for x in sorted(v, key=lambda z: (str(type(z)), z))) + "}"
    if isinstance(v, (list, tuple)):
        return "<<" + ", ".join(tla_value(x) for x in v) + ">>"
    raise TypeError(v)


def unquote_tla_json(line):
    """A PrintT(ToJson(x)) line is a TLA+ string literal containing JSON."""
    line = line.strip()
    if len(line) >= 2 and line[0] == '"' and line[-1] == '"':
        try:
            return json.loads(json.loads(line))
        except Exception:
            return None
    return None


# ----------------------------------------------------------------------------------------------------------
# Go harness

def goenv():
    e = dict(os.environ)
    e.update(GOFLAGS="-mod=mod", GOPROXY="off", GOSUMDB="off", GOTOOLCHAIN="local")
    e.pop("GOFLAGS_EXTRA", None)
    return e


def build_harness(ctx, race=False, tags="verif"):
    """Build the harness test binary against REPO's current working tree."""
    out = os.path.join(ctx.work, "harness.race.test" if race else "harness.test")
    if os.path.exists(out):
        return out
    # go.sum: repo's sums (the replace target's deps)
    shutil.copy(os.path.join(REPO, "go.sum"), os.path.join(HARNESS, "go.sum"))
    # go.mod replace target
    gomod = open(os.path.join(HARNESS, "go.mod")).read()
    want = "replace github.com/failsafe-go/failsafe-go => %s" % REPO
    if want not in gomod:
        gomod = re.sub(r"replace github.com/failsafe-go/failsafe-go => \S+", want, gomod)
        open(os.path.join(HARNESS, "go.mod"), "w").write(gomod)
    cmd = ["go1.26", "test", "-c", "-tags", tags, "-o", out]
    if race:
        cmd.append("-race")
    cmd.append(".")
    r = subprocess.run(cmd, cwd=HARNESS, env=goenv(), capture_output=True, text=True, timeout=900)
    if r.returncode != 0:
        raise Inconclusive("harness build failed:\n" + r.stdout[-3000:] + r.stderr[-3000:])
    return out


def run_harness(ctx, binary, mode, args=None, stdin_path=None, stdin_pipe=False, timeout=1200, env_extra=None):
    """Run harness in `mode`. Returns (Popen or CompletedProcess). Output JSON lines on stdout."""
    env = goenv()
    env["VH_MODE"] = mode
    env["VH_SEED"] = str(ctx.seed)
    env["VH_TIER"] = ctx.tier
    for k, v in (args or {}).items():
        env["VH_" + k.upper()] = str(v)
    env.update(env_extra or {})
    cmd = [binary, "-test.run", "^TestVerif$", "-test.timeout", "%ds" % (timeout + 60), "-test.count", "1"]
    if stdin_pipe:
        return subprocess.Popen(cmd, cwd=ctx.work, env=env, stdin=subprocess.PIPE, stdout=subprocess.PIPE,
                                stderr=subprocess.STDOUT, text=True, bufsize=1 << 20)
    fin = open(stdin_path) if stdin_path else subprocess.DEVNULL
    try:
        r = subprocess.run(cmd, cwd=ctx.work, env=env, stdin=fin, capture_output=True, text=True, timeout=timeout)
    except subprocess.TimeoutExpired:
        raise Inconclusive("harness timeout in mode " + mode)
    finally:
        if stdin_path:
            fin.close()
    return r


def parse_harness_output(text):
    """Harness prints lines `VH {json}`; everything else is go test chatter."""
    recs = []
    for line in text.splitlines():
        if line.startswith("VH "):
            try:
                recs.append(json.loads(line[3:]))
            except Exception:
                pass
    return recs


def harness_summary(ctx, r, mode):
    out = r.stdout + (r.stderr or "")
    recs = parse_harness_output(out)
    summ = [x for x in recs if x.get("k") == "summary"]
    if not summ:
        raise Inconclusive("harness produced no summary in mode %s (rc=%s):\n%s" % (mode, r.returncode, out[-3000:]))
    return recs, summ[-1]


# ----------------------------------------------------------------------------------------------------------
# Known findings, verdicts, evidence

def load_known():
    p = os.path.join(VERIF, "known_findings.json")
    if not os.path.exists(p):
        return []
    return json.load(open(p)).get("findings", [])


def save_replay(ctx, name, obj):
    d = os.path.join(VERIF, "replays")
    os.makedirs(d, exist_ok=True)
    p = os.path.join(d, "%s-%s.json" % (ctx.pid, name))
    with open(p, "w") as fh:
        json.dump(obj, fh, indent=1, sort_keys=True, default=str)
    return p


def add_violation(ctx, sig, detail, replay_obj):
    """sig: short stable signature string used to match known findings."""
    for v in ctx.violations:
        if v["sig"] == sig:
            v["count"] += 1
            return
    h = hashlib.sha1(sig.encode()).hexdigest()[:10]
    ctx.violations.append(dict(sig=sig, detail=detail, replay_obj=replay_obj, name=h, count=1))


def finish(ctx, level="model_checking", rule="", exhaustive=False, checker_cmd=None):
    """Write evidence, print verdict lines, return exit code."""
    known = [k for k in load_known() if k.get("property") == ctx.pid and k.get("status") == "open"]
    unexplained = []
    known_lines = []
    for v in ctx.violations:
        hit = None
        for k in known:
            if re.search(k["signature"], v["sig"]):
                hit = k
                break
        if hit:
            known_lines.append((hit, v))
        else:
            unexplained.append(v)
    printed = set()
    for k, v in known_lines:
        if k["id"] not in printed:
            print("KNOWN-FINDING: property=%s %s (%s)" % (ctx.pid, k["what"], k["id"]))
            printed.add(k["id"])
    rc = 0
    for v in unexplained:
        path = save_replay(ctx, v["name"], dict(property=ctx.pid, signature=v["sig"], detail=v["detail"],
                                                 replay=v["replay_obj"], seed=ctx.seed, tier=ctx.tier))
        print("VIOLATION property=%s replay=%s" % (ctx.pid, path))
        print("  signature: %s" % v["sig"])
        print("  detail: %s" % (str(v["detail"])[:600]))
        rc = 1
    cov = dict(states=max(ctx.states, 0), transitions=max(ctx.transitions, 0),
               traces_validated_against_impl=ctx.traces, samples=ctx.samples[:6] or ["(none)"],
               evaluations=max(ctx.evaluations, ctx.traces), distinct_nontrivial=ctx.nontrivial,
               rule=rule, exhaustive=exhaustive, tlc_runs=ctx.tlc_runs, notes=ctx.notes)
    cov.update(ctx.extra)
    if checker_cmd:
        cov["checker_cmd"] = checker_cmd
    ev = dict(property_id=ctx.pid, tier=ctx.tier, seed=ctx.seed, level=level, coverage=cov,
              assumptions=ctx.assumptions, wall_s=round(time.time() - ctx.t0, 1),
              violations=len(unexplained), known_findings=sorted(printed))
    os.makedirs(os.path.join(VERIF, "evidence"), exist_ok=True)
    with open(os.path.join(VERIF, "evidence", ctx.pid + ".json"), "w") as fh:
        json.dump(ev, fh, indent=1, default=str)
    print("%s %s tier=%s seed=%d states=%d transitions=%d impl_traces=%d nontrivial=%d wall=%.1fs" % (
        "PASS" if rc == 0 else "FAIL", ctx.pid, ctx.tier, ctx.seed, ctx.states, ctx.transitions, ctx.traces,
        ctx.nontrivial, time.time() - ctx.t0))
    return rc


def main_wrap(pid, fn):
    """Standard entry: parse tier, run fn(ctx), handle Inconclusive."""
    import argparse
    ap = argparse.ArgumentParser()
    ap.add_argument("--tier", default=os.environ.get("VERIF_TIER", "quick"))
    ap.add_argument("--replay", default=None)
    ap.add_argument("--keep", action="store_true")
    a = ap.parse_args(sys.argv[2:])
    tier = a.tier if a.tier in ("quick", "thorough") else "quick"
    ctx = Ctx(pid, tier, keep_replays=bool(a.replay))
    ctx.replay = a.replay
    try:
        if a.replay:
            import replay
            rc = replay.run(ctx, a.replay)
        else:
            rc = fn(ctx)
    except Inconclusive as e:
        print("INCONCLUSIVE %s: %s" % (pid, e))
        rc = 2
    except subprocess.TimeoutExpired as e:
        print("INCONCLUSIVE %s: timeout %s" % (pid, e))
        rc = 2
    finally:
        if not a.keep:
            ctx.cleanup()
    return rc
