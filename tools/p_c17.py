"""C17 - execution statistics. Spec: counters and per-copy last result of specs/Failsafe.tla, a snapshot in every
action that calls user code, + C17_* invariants. The snapshot read inside every callback is compared with the spec's."""
import vlib, seq

NAMES = ["rp", "rpH", "rpL", "rp3", "cbA", "rl2", "bh1", "fbR", "fbH", "cK", "to", "hg", "hgR", "hg2E"]


def accept(m):
    return m["tag"] in ("evsnap", "counters")


def run(ctx):
    binary = vlib.build_harness(ctx)
    quick = ctx.tier == "quick"
    st = seq.all_stacks(NAMES, 2 if quick else 3)
    parts = 2 if quick else 8
    jobs = [dict(ctx=ctx, binary=binary, name="st%d" % k, stacks=st[k::parts], outs=seq.OUTS4 if quick else seq.OUTS3, maxcalls=3, execs=1, workers=8) for k in range(parts)]
    mism = seq.run_jobs(ctx, jobs, par=2)
    seq.report(ctx, mism, accept)
    return vlib.finish(ctx, rule="all stacks of depth <= D over %d descriptors; Attempts/Executions/Retries/Hedges, flags and LastResult/LastError read inside the function, every listener and the fallback, compared with the spec's snapshot at that event; "
                       "non-trivial = more than one invocation or any policy event" % len(NAMES), exhaustive=True)
