"""C17 - execution statistics. Spec: counters and per-copy last result of specs/Failsafe.tla, a snapshot in every
action that calls user code, + C17_* invariants. The snapshot read inside every callback is compared with the spec's."""
import vlib, seq

NAMES = ["rp", "rpH", "rpL", "rp3", "cbA", "rl2", "bh1", "fbR", "fbH", "cK", "to", "hg", "hgR", "hg2E"]


def accept(m):
    return m["tag"] in ("evsnap", "counters") or (m["tag"] == "evextra" and m["kind"] == "fn") or "DelayFnSawNonFailure" in m.get("what", "")


def run(ctx):
    binary = vlib.build_harness(ctx)
    quick = ctx.tier == "quick"
    st = seq.all_stacks(NAMES, 2 if quick else 3)
    parts = 2 if quick else 8
    jobs = [dict(ctx=ctx, binary=binary, name="st%d" % k, stacks=st[k::parts], outs=seq.OUTS4 if quick else seq.OUTS3, maxcalls=3, execs=1, workers=8) for k in range(parts)]
    # what a retry policy's delay function reads (LastResult / LastError of the attempt that just failed) decides the delay
    # (no hedge above it: the sequential machine's hedges never fire)
    rdf = [["rpDF"], ["rpDF", "cbA"], ["fbR", "rpDF"], ["rpDF", "rp"], ["rp", "rpDF"], ["to", "rpDF"], ["rpDF", "bh1"], ["rp3", "cbDF"], ["rpDF", "cbDF"], ["cbDF"]]
    jobs.append(dict(ctx=ctx, binary=binary, name="rdf", stacks=rdf, outs=seq.OUTS4, maxcalls=3, execs=2, workers=4))
    mism = seq.run_jobs(ctx, jobs, par=2)
    seq.report(ctx, mism, accept)
    # overlapping hedge attempts and attempts that outlive their timeout: what the function sees when it starts and when it
    # ends (counters, flags, last result/error) must be what the threaded model says at that event
    import p_c07, tscen
    from tscen import scenario, fn, start, env, to, hg, retry, fb, cR
    scs = []
    for ds in ((1, 3, 1), (3, 1, 1), (4, 4, 1), (2, 2, 2)):
        for coop in (True, False):
            fns = [[fn(d, "R0", "E1", coop) for d in ds] + [fn(1, "R1")] * 2]
            scs += [scenario(st, fns, [start(1)]) for st in ([retry(2, dly=1), to(2)], [hg(2, 1, c=[cR("R1")])], [retry(1, dly=1), hg(1, 2, c=[cR("R1")])],
                                                              [fb(), hg(1, 1, c=[cR("R1")])], [to(3), retry(1), hg(1, 1)])]
    # the counters a cancelled execution ends with: cancelled (caller, outer Timeout, async Cancel) while a retry or a hedge is pending
    for st in ([retry(2, dly=3)], [to(2), retry(2, dly=3)], [hg(2, 3)], [to(2), hg(1, 3)], [fb(), retry(2, dly=2), hg(1, 3)]):
        for coop in (True, False):
            fns = [[fn(1, "R0", "E1", coop)] * 4]
            for ct in (1, 2, 3, 4):
                scs.append(scenario(st, fns, [start(1), env("CtxCancel", ct, 1)]))
                scs.append(scenario(st, fns, [start(1, 0, True), env("AsyncCancel", ct, 1)]))
    p_c07.run_family(ctx, "c17t", scs)
    return vlib.finish(ctx, rule="all stacks of depth <= D over %d descriptors; Attempts/Executions/Retries/Hedges, flags and LastResult/LastError read inside the function, every listener and the fallback, compared with the spec's snapshot at that event; "
                       "non-trivial = more than one invocation or any policy event" % len(NAMES), exhaustive=True)
