"""Trace validation helper: run TLC on a *Trace spec against an NDJSON file; report acceptance or the rejected line."""
import json, os, vlib


def validate(ctx, name, trace_module, trace_path, extra_constants="", invariants="", spec="TraceSpec", timeout=1800):
    """Returns (accepted, info). The trace spec must define TraceAccepted (POSTCONDITION) and Progress (CONSTRAINT)."""
    nlines = sum(1 for _ in open(trace_path))
    tla = "---- MODULE MC ----\nEXTENDS %s\n====\n" % trace_module
    cfg = ("SPECIFICATION %s\nCONSTANTS\n TraceFile = \"%s\"\n%s\nCONSTRAINT Progress\nPOSTCONDITION TraceAccepted\n%sCHECK_DEADLOCK FALSE\n"
           % (spec, trace_path, extra_constants, ("INVARIANTS %s\n" % invariants) if invariants else ""))
    d = vlib.stage_specs(ctx, "tv_" + name, tla, cfg)
    res = vlib.run_tlc(ctx, d, workers=1, dfs=True, timeout=timeout, allow_fail=True)
    tail = "\n".join(res["tail"][-60:])
    if res["rc"] == 0 and not res["viol"] and "violated" not in tail and "Error" not in tail:
        return True, dict(lines=nlines, states=res["distinct"])
    # rejected: the deepest line reached is the diameter of the search
    import re
    m = re.search(r"The depth of the complete state graph search is (\d+)", tail)
    depth = int(m.group(1)) if m else None
    if "TraceAccepted" not in tail and "violated" not in tail and "is violated" not in tail and depth is None:
        raise vlib.Inconclusive("TLC failed on trace spec %s:\n%s" % (trace_module, tail))
    return False, dict(lines=nlines, reached=depth, tail=tail)


def read_lines(path, lo, hi):
    out = []
    with open(path) as fh:
        for i, line in enumerate(fh, 1):
            if i >= lo:
                out.append(json.loads(line))
            if i >= hi:
                break
    return out
