#!/usr/bin/env python3
"""Confirm a sub-agent's seeded change in a scratch worktree and store it under /verif/seeded/<id>/.
usage: confirm_seed.py <prop> <mK> [more pairs...]   (inputs in /tmp/mut/<prop>-out/<mK>/)"""
import json, os, re, shutil, subprocess, sys, time
ENV = dict(os.environ, GOFLAGS="-mod=mod", GOPROXY="off", GOSUMDB="off", GOTOOLCHAIN="local")

def sh(cmd, cwd, timeout=900):
    r = subprocess.run(cmd, shell=True, cwd=cwd, env=ENV, capture_output=True, text=True, timeout=timeout)
    return r.returncode, (r.stdout + r.stderr)

def main(prop, mk):
    src = "%s/%s-out/%s" % (os.environ.get("MUT_DIR", "/tmp/mut"), prop, mk)
    sid = "%s-%s%s" % (prop, os.environ.get("SEED_TAG", ""), mk)
    wt = "/tmp/seedchk/" + sid
    shutil.rmtree(wt, ignore_errors=True)
    os.makedirs("/tmp/seedchk", exist_ok=True)
    subprocess.run("git -C /repo worktree prune; git -C /repo worktree add -f --detach %s HEAD" % wt, shell=True, capture_output=True)
    res = dict(id=sid, property=prop, base=subprocess.run("git -C /repo rev-parse --short HEAD", shell=True, capture_output=True, text=True).stdout.strip())
    try:
        demo = open(src + "/demo_test.go").read()
        m = re.search(r"go test[^\n]*-run '?([^'\s]+)'?[^\n]*", demo)
        mp = re.search(r"\s(\./\S*|\.)(\s|$)", m.group(0)) if m else None
        if not m or not mp:
            res["error"] = "cannot find run command in demo"; return res
        rx, pkg = m.group(1), mp.group(1)
        race = "-race " if "-race" in m.group(0) else ""
        if "VerifHook" in demo or "-tags verif" in demo:
            race += "-tags verif "
        rc, out = sh("git apply %s/patch.diff" % src, wt)
        res["applies"] = rc == 0
        if rc: res["error"] = out[-500:]; return res
        rc, out = sh("go build ./... && go vet ./... >/dev/null 2>&1; go build ./...", wt)
        res["compiles"] = rc == 0
        rc, out = sh("go test -count=1 ./... 2>&1 | grep -E '^(FAIL|ok|---)' ", wt, 1500)
        fails = [l for l in out.splitlines() if l.startswith("FAIL") or l.startswith("--- FAIL")]
        other = [l for l in fails if "examples" not in l and "TestCache" not in l and l.strip() != "FAIL"]
        res["suite_passes_with_change"] = not other
        res["suite_fail_lines"] = fails[:8]
        if other:   # one retry for timing flakes
            rc, out2 = sh("go test -count=1 ./... 2>&1 | grep -E '^(FAIL|---)' ", wt, 1500)
            other2 = [l for l in out2.splitlines() if (l.startswith("FAIL") or l.startswith("--- FAIL")) and "examples" not in l and "TestCache" not in l and l.strip() != "FAIL"]
            res["suite_passes_with_change_retry"] = not other2
        dst = os.path.join(wt, pkg.lstrip("./"), "zz_seed_demo_test.go")
        os.makedirs(os.path.dirname(dst), exist_ok=True)
        shutil.copy(src + "/demo_test.go", dst)
        rc, out = sh("go test %s-count=1 -run '%s' %s" % (race, rx, pkg), wt, 900)
        res["demo_fails_with_change"] = rc != 0 and "FAIL" in out
        res["demo_out_with"] = out[-400:]
        sh("git checkout -- . ", wt)
        rc, out = sh("go test %s-count=1 -run '%s' %s" % (race, rx, pkg), wt, 900)
        res["demo_passes_without_change"] = rc == 0
        res["demo_cmd"] = "go test %s-count=1 -run '%s' %s   (demo placed as %s)" % (race, rx, pkg, os.path.relpath(dst, wt))
        ok = res["applies"] and res["compiles"] and (res["suite_passes_with_change"] or res.get("suite_passes_with_change_retry")) and res["demo_fails_with_change"] and res["demo_passes_without_change"]
        res["confirmed"] = bool(ok)
        if ok:
            d = "/verif/seeded/" + sid
            os.makedirs(d, exist_ok=True)
            for f in ("patch.diff", "demo_test.go", "notes.md"):
                shutil.copy(os.path.join(src, f), d)
            notes = open(src + "/notes.md").read()
            meta = dict(id=sid, breaks_property=prop, needs_to_manifest=notes[:1500],
                        confirmed=dict(base_commit=res["base"], ran=["git apply patch.diff", "go build ./...", "go test -count=1 ./... (all pass except the baseline always-fail examples::TestCache)",
                                                                     res["demo_cmd"] + " -> FAIL with the change", "same command on the unchanged tree -> PASS"],
                                       at=time.strftime("%Y-%m-%dT%H:%M:%SZ", time.gmtime())))
            json.dump(meta, open(d + "/meta.json", "w"), indent=1)
        return res
    finally:
        subprocess.run("git -C /repo worktree remove --force %s" % wt, shell=True, capture_output=True)
        shutil.rmtree(wt, ignore_errors=True)

if __name__ == "__main__":
    a = sys.argv[1:]
    for i in range(0, len(a), 2):
        r = main(a[i], a[i + 1])
        print(json.dumps({k: v for k, v in r.items() if k not in ("demo_out_with",)}), flush=True)
