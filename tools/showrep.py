#!/usr/bin/env python3
"""Print timed replays compactly: tools/showrep.py <Cxx> [sig-prefix]"""
import json, glob, sys
pid = sys.argv[1]; pref = sys.argv[2] if len(sys.argv) > 2 else ""
for f in sorted(glob.glob('/verif/replays/%s-*.json' % pid)):
    r = json.load(open(f)); sig = r['signature']
    if not sig.startswith(pref) or 'config' not in r['replay']: continue
    c = r['replay']['config']
    print("=====", sig)
    print("STACK", [{k: v for k, v in d.items() if k in ('k', 'max', 'dly', 'wait', 'delay', 'maxh', 'limit') } for d in c['stack']],
          "FNS", [[(x['d'], x['r'], x['e']['op'], x['coop']) for x in fl[:4]] for fl in c['fns']], "ENV", [(e['what'], e['at'], e.get('gap'), e['async'], e.get('x')) for e in c['env']], "tld", c.get('tld'))
    for l in r['replay']['trace'][1:]:
        print("  ", {k: v for k, v in l.items() if k in ('ev', 't', 'x', 'k', 'L', 'canceled', 'r', 'att', 'exe', 'live', 'ok', 'used')}, l.get('e', {}).get('op') if isinstance(l.get('e'), dict) else '', l.get('le', {}).get('op', '') if isinstance(l.get('le'), dict) else '')
