"""C18 - HTTP and gRPC adapters are transparent and replay requests faithfully. Spec: specs/HttpAdapter.tla (attempt
protocol over the documented retryable table, Retry-After, last response returned and readable, per-attempt context carries
the caller's values / deadline / metadata). Binding: direction B - the real http.Transport and http.Server over net.Pipe
inside a synctest bubble (Retry-After seconds cost nothing), an instrumented inner RoundTripper, fake gRPC invoker/handler;
recorded traces validated by TLC, every property clause evaluated on every recorded line."""
import itertools, json, os, re, vlib


def R(status=200, ra=-1, err="none", mode="buffered"):
    return dict(status=status, ra=ra, err=err, mode=mode)


def http_scenarios(quick):
    out = []
    scripts = [
        [R(200)], [R(200, mode="streamed")], [R(503, 2), R(200)], [R(429, 1), R(500), R(200, mode="streamed")], [R(500), R(500), R(500)],
        [R(501), R(200)], [R(404)], [R(err="conn"), R(200)], [R(503, 3), R(502), R(200)], [R(400), R(200)], [R(429, 0), R(201)],
        [R(503, 1, mode="early"), R(200)], [R(429, 2, mode="early"), R(503, mode="early"), R(200)],
    ]
    bodies = [("none", 0), ("buffer", 1), ("buffer", 4096), ("reader", 17), ("seeker", 300), ("stream", 65536), ("stream", 5), ("empty", 0)]
    rctxs = ["background", "todo", "cancellable", "values", "deadline"]
    pols = [["retry"], ["retry", "timeout"], ["timeout", "retry"], ["retry", "hedge"], ["breaker", "retry"], ["fallback", "retry", "timeout"], [], ["retrybo"], ["retryx"], ["retryrd"]]
    combos = list(itertools.product(range(len(scripts)), range(len(bodies)), rctxs, range(len(pols)), ["none", "values"], ["roundtripper", "request"]))
    if quick:
        combos = combos[::11]
    # always: an early refusal (the server answers before reading the upload) against every replayable body kind
    forced = [(si, bi, "background", 0, "none", via) for si in (len(scripts) - 2, len(scripts) - 1) for bi in range(len(bodies)) for via in ("roundtripper", "request")]
    bodies.append(("stream0", 300))        # a plain stream whose ContentLength was left 0 (= unknown), as http.NewRequest does for reader types it does not know
    forced += [(si, len(bodies) - 1, "background", pi, "none", via) for si in (2, 3, 7) for pi in (0, 1) for via in ("roundtripper", "request")]
    bodies.append(("stream", 600000))       # larger than what net/http's server drains on its own after an early answer
    forced += [(si, len(bodies) - 1, "background", 0, "none", via) for si in (len(scripts) - 2, len(scripts) - 1) for via in ("roundtripper", "request")]
    # always: the adapter's default retry policy running out of retries (the caller gets the LAST response inside the ExceededError)
    scripts.append([R(503, 2, mode="slow"), R(200)])
    scripts.append([R(429, 1, mode="slow"), R(503, 3, mode="slow"), R(200, mode="slow")])
    forced += [(si, 0, "background", pi, "none", via) for si in (len(scripts) - 2, len(scripts) - 1) for pi in (0, 7, 9) for via in ("roundtripper", "request")]
    forced += [(si, 0, "background", 9, "none", "roundtripper") for si in (2, 3, 8)]
    scripts.append([R(429, 0), R(503), R(500)])
    scripts.append([R(500), R(err="conn"), R(err="conn")])
    forced += [(si, bi, rc, 8, "none", via) for si in (4, len(scripts) - 2, len(scripts) - 1) for bi in (0, 3) for rc in ("background", "values") for via in ("roundtripper", "request")]
    # always: an attempt that fails on a deadline of its own below the adapter (the caller's context is alive): retried like any transient error
    scripts.append([R(err="attemptdl"), R(200)])
    scripts.append([R(503, 1), R(err="attemptdl"), R(200, mode="streamed")])
    forced += [(si, bi, rc, pi, "none", via) for si in (len(scripts) - 2, len(scripts) - 1) for bi in (0, 1) for rc in ("background", "cancellable") for pi in (0, 1, 8) for via in ("roundtripper", "request")]
    # always: a Timeout that fires while the server is still thinking, with and without a request body (C07 through the adapter)
    scripts.append([R(200, mode="slow3")])
    pols.append(["timeout1"])
    forced += [(len(scripts) - 1, bi, rc, len(pols) - 1, ec, via) for bi in (0, 1, 3, 4, 5) for rc in ("background", "values") for ec in ("none", "values") for via in ("roundtripper", "request")]
    # always: an upload that cannot be rewound for the second attempt (the execution ends with that error; nothing may be left behind)
    bodies.append(("seekfail", 64))
    forced += [(si, len(bodies) - 1, rc, pi, ec, via) for si in (2, 3) for rc in ("background", "values") for pi in (0, 1) for ec in ("none", "values") for via in ("roundtripper", "request")]
    for si, bi, rc, pi, ec, via in forced + combos:
        if not pols[pi] and len(scripts[si]) > 1:
            continue
        out.append(dict(script=scripts[si], maxRetries=2, bodyKind=bodies[bi][0], bodySize=bodies[bi][1], reqCtx=rc, execCtx=ec, policies=pols[pi], via=via, grpc="", method="POST"))
    return out


def grpc_scenarios():
    out = []
    scripts = [[R(200)], [R(503), R(200)], [R(504), R(429), R(200)], [R(500), R(200)], [R(404)], [R(503), R(503), R(503)], [R(503), R(500)]]
    for s in scripts:
        for side in ("client", "server"):
            for pol in ([], ["timeout"]):
                for ec in ("none", "values"):
                    out.append(dict(script=s, maxRetries=2, bodyKind="none", bodySize=0, reqCtx="values", execCtx=ec, policies=pol, via="", grpc=side, method=""))
    return out


def seek_reuse(sc, tr):
    """A seekable request body delivered empty (to the server, or refused by the transport) on a later attempt."""
    if sc["bodyKind"] not in ("seeker", "reader"):
        return False
    if any((x["ev"] == "Req" and not x["bodyComplete"] and x["n"] > 1) or
           (x["ev"] == "Final" and "with Body length" in x.get("err", "")) for x in tr):
        return True
    # ... or a later attempt that the transport refused before it reached the server: fewer arrivals than the script demands
    def retryable(r):
        return r["err"] != "none" or r["status"] == 429 or (r["status"] >= 500 and r["status"] != 501)
    want = 1
    for r in sc["script"]:
        if retryable(r) and want <= sc["maxRetries"] and want < len(sc["script"]):
            want += 1
        else:
            break
    got = sum(1 for x in tr if x["ev"] == "Req")
    return ("retry" in sc["policies"] or "retrybo" in sc["policies"]) and 1 < got < want


LEAK_CLAUSES = {"mergerLeak", "responseNotClosed", "nilInnerSharesDefaultTransport", "hedgeLoserReleased"}
TIMEOUT_CLAUSES = {"timeoutPrompt", "attemptCancelled"}      # C07 through the HTTP adapter: reported by C07's check


def run_http(ctx, only_leaks=False, only=None):
    binary = vlib.build_harness(ctx)
    quick = ctx.tier == "quick"
    scs = http_scenarios(quick) + grpc_scenarios()
    d = ctx.sub("http")
    inp, outp = os.path.join(d, "scen.ndjson"), os.path.join(d, "trace.ndjson")
    with open(inp, "w") as fh:
        for s in scs:
            fh.write(json.dumps(s) + "\n")
    r = vlib.run_harness(ctx, binary, "http_scenarios", args={"in": inp, "out": outp}, timeout=3000)
    recs, summ = vlib.harness_summary(ctx, r, "http_scenarios")
    for p in [x for x in recs if x.get("k") == "problem"]:
        vlib.add_violation(ctx, "http:problem:" + p["what"][:80], p["what"], dict(scenario=p.get("raw")))
    ctx.evaluations += summ["events"]
    ctx.nontrivial += sum(1 for s in scs if len(s["script"]) > 1)
    if not ctx.samples and summ.get("sample"):
        ctx.samples.append(summ["sample"])
    tla = "---- MODULE MC ----\nEXTENDS HttpAdapter\n====\n"
    cfg = "SPECIFICATION HSpec\nCONSTANTS\n TraceFile = \"%s\"\nCONSTRAINT ProgressPrint\nCHECK_DEADLOCK FALSE\n" % outp
    sd = vlib.stage_specs(ctx, "tv_http", tla, cfg)
    acc, hwm, viols = [False], [0], {}

    def cb(line):
        if "TRACE-ACCEPTED" in line:
            acc[0] = True
            return True
        m = re.search(r'<<"HWM", (\d+)>>', line)
        if m:
            hwm[0] = max(hwm[0], int(m.group(1)))
            return True
        m = re.search(r'<<"HVIOL", "(\w+)", (\d+)>>', line)
        if m:
            viols[(m.group(1), int(m.group(2)))] = 1
            return True
        return False
    t = vlib.run_tlc(ctx, sd, workers=1, timeout=1800, allow_fail=True, line_cb=cb, module="MC")
    lines = [json.loads(x) for x in open(outp)]
    def scen_of(ln):
        i = max(k for k in range(ln) if lines[k]["ev"] == "HConfig")
        j = ln
        while j < len(lines) and lines[j]["ev"] != "HConfig":
            j += 1
        return lines[i]["scenario"], lines[i:j]
    if not acc[0]:
        if hwm[0] == 0:
            raise vlib.Inconclusive("TLC failed on the HTTP trace:\n" + "\n".join(t["tail"][-40:]))
        sc, tr = scen_of(hwm[0])
        seekrace = seek_reuse(sc, tr)
        vlib.add_violation(ctx, "http:protocol:%s%s" % (lines[hwm[0] - 1]["ev"], ",seekable-body-reuse" if seekrace else ""), "line %d is not a step of specs/HttpAdapter.tla: %s" % (hwm[0], json.dumps(lines[hwm[0] - 1])[:300]), dict(scenario=sc, trace=tr))
    else:
        ctx.traces += len(scs)
    leak_clauses = LEAK_CLAUSES
    for (clause, ln) in sorted(viols):
        if only is not None:
            if clause not in only:
                continue
        elif only_leaks != (clause in leak_clauses) or clause in TIMEOUT_CLAUSES:
            continue
        sc, tr = scen_of(ln)
        kind = "grpc" if sc["grpc"] else "http"
        # a seekable request body delivered empty on a later attempt poisons the rest of the scenario (known finding)
        seekrace = seek_reuse(sc, tr)
        merged = sc["reqCtx"] != "background" and (sc["execCtx"] != "none" or any(p in ("timeout", "hedge") for p in sc["policies"]))
        ctxk = "%s,body=%s%s" % ("merged-ctx" if merged else "single-ctx", sc["bodyKind"], ",seekable-body-reuse" if seekrace else "")
        vlib.add_violation(ctx, "%s:%s:%s" % (kind, clause, ctxk), "clause %s fails on %s" % (clause, json.dumps(lines[ln - 1])[:300]), dict(scenario=sc, trace=tr))


def run(ctx):
    run_http(ctx, only_leaks=False)
    return vlib.finish(ctx, rule="request body kinds {none, *bytes.Buffer, *bytes.Reader, seekable, plain stream, empty stream} x sizes up to 64 KiB x request context kinds {Background, TODO, cancellable, values, deadline} x "
                       "executor context {none, values} x 7 policy stacks x 11 server scripts (statuses, Retry-After, streamed bodies, connection errors) x RoundTripper / Request (quick: every 9th combination), plus gRPC client and "
                       "server interceptors x 7 status scripts; non-trivial = scenario with at least one retry")
