#!/usr/bin/env python3
"""tools/tdebug.py <replay.json>: re-validate the trace of a timed replay and show the spec state at the rejected line."""
import json, os, subprocess, sys, re
sys.path.insert(0, '/verif/tools')
import vlib
r = json.load(open(sys.argv[1]))
tr = r['replay']['trace']
ctx = vlib.Ctx("tdbg", "quick")
path = os.path.join(ctx.work, "t.ndjson")
open(path, "w").write("\n".join(json.dumps(l) for l in tr) + "\n")
K = len(tr)
tla = "---- MODULE MC ----\nEXTENDS FailsafeTTrace\nStop == l < %d\n====\n" % K
cfg = "SPECIFICATION TraceSpec\nCONSTANTS\n TraceFile = \"%s\"\nINVARIANT Stop\nCHECK_DEADLOCK FALSE\n" % path
d = vlib.stage_specs(ctx, "x", tla, cfg)
out = subprocess.run("java -Xss64m -Dtlc2.tool.queue.IStateQueue=StateDeque -cp %s tlc2.TLC -workers 1 -metadir /tmp/mdD -noGenerateSpecTE -config MC.cfg MC 2>&1" % vlib.TLA_JAR, shell=True, cwd=d, capture_output=True, text=True).stdout
states = out.split("\nState ")
last = states[-1]
print("rejected line:", json.dumps(tr[-1])[:400])
# compact view of threads in the last state
m = re.search(r"/\\ th = (.*?)\n/\\ ", last, re.S)
print(last[:200])
for key in ("now", "envi", "l"):
    mm = re.search(r"/\\ %s = (\S+)" % key, last)
    print(key, mm.group(1) if mm else "?")
th = re.findall(r"mode \|-> \"(\w+)\".*?i \|-> (\d+).*?w \|->\s*\[k \|-> \"([^\"]+)\", coop \|-> \w+, until \|-> (-?\d+).*?kind \|-> \"(\w+)\".*?sub \|-> \"([^\"]+)\"", last, re.S)
for t in th: print("thread mode=%s i=%s wait=%s until=%s kind=%s sub=%s" % t)
mm = re.search(r"/\\ xs = (.*?)/\\ \w+ =", last, re.S)
if mm: print(re.sub(r"\s+", " ", mm.group(1))[:1500])
ctx.cleanup()
