"""C13 - retry delays stay within their envelope. Spec: specs/RetryDelay.tla (the envelope as a nondeterministic
relation: fixed / backoff chain / random range / delay function, jitter, max-duration clamp). Binding: direction B -
every OnRetryScheduled delay and next-attempt instant of randomly configured real retry policies (virtual time,
magnitudes 1us..1h) is recorded and the traces are validated by TLC against specs/RetryDelayTrace.tla."""
import json, os, vlib, tracecheck


def model_check(ctx):
    """Small integer model: what the relation implies (non-negative, monotone backoff <= maxDelay, clamp)."""
    tla = """---- MODULE MC ----
EXTENDS RetryDelay
VARIABLE el
Cfgs == {[kind |-> kd, d |-> 2, maxd |-> md, fp |-> fp, fq |-> 1, dmin |-> 1, dmax |-> 3, jit |-> j, jfp |-> 0, maxdur |-> mdur, tol |-> 0] :
           kd \\in {"none", "fixed", "backoff", "random"}, md \\in {2, 5, 20}, fp \\in {2, 3}, j \\in {0, 1, 3}, mdur \\in {0, 4, 10}}
MCInit == el = 0 /\\ \\E c \\in Cfgs : RDInit(c)
MCNext == /\\ k < 5
          /\\ \\E q \\in 0..25, fv \\in {-1, 0, 4}, de \\in 0..2 :
                /\\ Schedule(q, TRUE, el, fv, 0)
                /\\ el' = el + q + de
MCSpec == MCInit /\\ [][MCNext]_<<cfg, nom, k, lastSched, el>>
\\* never negative, never past the remaining max duration, backoff monotone and bounded
NonNeg == lastSched.q >= -1
Clamp == (cfg.maxdur # 0 /\\ lastSched.q >= 0) => el <= cfg.maxdur + 2 * k
NomMonotone == [][cfg.kind = "backoff" /\\ nom # 0 => nom' >= nom]_<<cfg, nom, k, lastSched, el>>
====
"""
    cfg = "SPECIFICATION MCSpec\nINVARIANTS NonNeg NomBounded Clamp\nPROPERTIES NomMonotone\nCHECK_DEADLOCK FALSE\n"
    d = vlib.stage_specs(ctx, "rd_mc", tla, cfg)
    res = vlib.run_tlc(ctx, d, workers=8, timeout=900)
    if res["viol"]:
        raise vlib.Inconclusive("RetryDelay.tla violates its own implied properties:\n" + "\n".join(res["tail"][-30:]))


def run(ctx):
    binary = vlib.build_harness(ctx)
    model_check(ctx)
    n = 3000 if ctx.tier == "quick" else 60000
    rounds = 1 if ctx.tier == "quick" else 4
    for rd in range(rounds):
        path = os.path.join(ctx.work, "rd_%d.ndjson" % rd)
        r = vlib.run_harness(ctx, binary, "retry_delay_traces", args=dict(n=n // rounds, out=path), env_extra={"VH_SEED": str(ctx.seed * 100 + rd)})
        try:
            recs, summ = vlib.harness_summary(ctx, r, "retry_delay_traces")
        except vlib.Inconclusive:
            # the harness process died (not a Go panic it could recover): what the first execution of each configuration
            # scheduled up to then was written out unbuffered - if THAT already leaves the envelope it is a verdict
            live = path + ".live"
            if os.path.exists(live):
                good = [l for l in open(live).read().split("\n") if l.startswith("{") and l.endswith("}")]
                open(live, "w").write("\n".join(good) + "\n")
                ok, info = tracecheck.validate(ctx, "rdlive%d" % rd, "RetryDelayTrace", live)
                if not ok:
                    reached = info.get("reached") or 1
                    lines = tracecheck.read_lines(live, 1, reached)
                    start = max(i for i, l in enumerate(lines) if l["ev"] == "Config")
                    bad = lines[start:]
                    vlib.add_violation(ctx, "retrydelay:%s:Sched:then-the-process-died" % bad[0]["cfg"]["kind"],
                                       "event %s is not allowed by the envelope after %s (the harness process died afterwards)" % (json.dumps(bad[-1]), json.dumps(bad[:-1])[:600]),
                                       dict(trace=bad, rejected_line=reached))
                    continue
            raise
        for p in [x for x in recs if x.get("k") == "problem"]:
            vlib.add_violation(ctx, "retrydelay:problem:%s" % p["cfg"]["kind"], "%s with configuration %s, %d retries" % (p["what"], json.dumps(p["cfg"]), p["maxRetries"]), dict(config=p["cfg"]))
        ctx.traces += summ["n"]
        ctx.nontrivial += summ["nontrivial"]
        ctx.evaluations += summ["events"]
        if rd == 0:
            ctx.samples += summ["sample"][:2]
        ok, info = tracecheck.validate(ctx, "rd%d" % rd, "RetryDelayTrace", path)
        if not ok:
            reached = info.get("reached") or 1
            # find the trace (Config line) containing the rejected line
            lines = tracecheck.read_lines(path, 1, reached)   # diameter = consumed lines + 1 = index of the first unexplained line
            start = max(i for i, l in enumerate(lines) if l["ev"] == "Config")
            bad = lines[start:]
            cfg = bad[0]["cfg"]
            what = bad[-1]
            sig = "retrydelay:%s:%s%s%s:%s" % (cfg["kind"], "jit" if cfg["jit"] else "", "jf" if cfg["jfp"] else "", "maxdur" if cfg["maxdur"] else "", what["ev"])
            vlib.add_violation(ctx, sig, "event %s is not allowed by the envelope after %s" % (json.dumps(what), json.dumps(bad[:-1])[:600]),
                               dict(trace=bad, rejected_line=reached, tlc_tail=info.get("tail", "")[-1500:]))
    # the scheduled delay also elapses in full when the attempt before it ended in another way than by returning an error: an
    # inner Timeout that fired, a hedge that lost, a refused bulkhead permit, a breaker that opened (threaded model, exact instants)
    import p_c07, tscen
    from tscen import scenario, fn, start, env, to, hg, retry, fb, bh, cb
    scs = []
    for st, extra in (([retry(2, dly=3), to(1)], []), ([retry(2, dly=2), to(1), retry(1, dly=1)], []), ([fb(), retry(2, dly=3), to(2)], []), ([retry(2, dly=2), hg(1, 1)], []),
                      ([retry(2, dly=2), bh("b", 1, wait=1)], [env("BhTake", 0, id="b"), env("BhRelease", 4, id="b")]), ([retry(3, dly=2), cb("c")], []), ([to(9), retry(3, dly=2), to(1)], [])):
        for ds in ((3, 3, 0), (3, 0, 3), (0, 3, 3), (2, 1, 2)):
            for coop in (True, False):
                fns = [[fn(d, "R0", "E1", coop) for d in ds] + [fn(0, "R1")] * 3]
                scs.append(scenario(st, fns, extra + [start(1)]))
                scs.append(scenario(st, fns, extra + [start(1, 0, True)]))
    p_c07.run_family(ctx, "c13t", scs)
    return vlib.finish(ctx, rule="random retry configurations (none/fixed/backoff x4 factors/random range, jitter duration or factor, max duration, delay function scripts) at base magnitudes 1us..1h, "
                       "3-8 retries with attempts of varying duration, in virtual time; every OnRetryScheduled delay and next attempt start is a trace event validated by TLC; "
                       "non-trivial = trace with backoff, jitter or max duration and at least 3 events")
