"""C02 - retry policy: bounded attempts, stop conditions, final result, per-execution budget.
Spec: retry layer of specs/Failsafe.tla (+ invariants C02_*); retry-centred stack family with max-duration/delay
configurations and timed outcomes; every behaviour replayed on the real library in virtual time."""
import vlib, seq

RETRIES = ["rp", "rp0", "rp1", "rp3", "rpH", "rpHE", "rpH2", "rpA", "rpA2", "rpAM", "rpAR", "rpL", "rpU", "rpD", "rpUD", "rpDL", "rpDS"]
INNER = ["cbB", "cbX", "fbH", "fbX", "bh1", "rl2"]
OUTS = [seq.out("R0"), seq.out("R1"), seq.out("R0", "E1"), seq.out("R0", "E2"), seq.out("R1", "E3")]      # (the last: a result together with an error)
OUTS_T = [seq.out("R1", d=1), seq.out("R0", "E1"), seq.out("R0", "E1", d=1), seq.out("R0", "E1", d=2), seq.out("R0", "E2", d=3)]


def accept(m):
    if m["tag"] in ("calls", "ret", "verdict"):
        return True
    return m["kind"] == "retry" and m["tag"] in ("evname", "evextra")


def run(ctx):
    binary = vlib.build_harness(ctx)
    quick = ctx.tier == "quick"
    single = [[r] for r in RETRIES]
    nested = [[a, b] for a in RETRIES for b in RETRIES if "D" not in a + b]
    # An unlimited retry policy over a policy that can refuse forever (open breaker, exhausted limiter) never ends, in the
    # model as in the code; with a max duration the clamped delays stop the virtual clock at exactly maxDuration, which
    # is not "exceeded". Not generated.
    mixed = [[r, i] for r in RETRIES for i in INNER if not (r in ("rpU", "rpUD") and i in ("cbB", "cbX", "rl2"))] + [[i, r] for r in RETRIES for i in INNER]
    timed = [[r] for r in ["rpD", "rpUD", "rpDL", "rpDS", "rp1"]] + [["rpD", "rp1"], ["rp1", "rpD"], ["rpD", "cbB"]]
    mc = 4 if quick else 6
    jobs = [
        dict(ctx=ctx, binary=binary, name="single", stacks=single, outs=OUTS, maxcalls=5, execs=2, workers=6),
        dict(ctx=ctx, binary=binary, name="single2", stacks=single, outs=seq.OUTS3, maxcalls=4 if quick else 5, execs=2, workers=6),
        dict(ctx=ctx, binary=binary, name="nested", stacks=nested, outs=seq.OUTS3, maxcalls=4, execs=1 if quick else 2, workers=6),
        dict(ctx=ctx, binary=binary, name="mixed", stacks=mixed, outs=seq.OUTS3, maxcalls=4, execs=2 if not quick else 1, workers=6),
        dict(ctx=ctx, binary=binary, name="timed", stacks=timed, outs=OUTS_T, maxcalls=mc, execs=1 if quick else 2, workers=6),
    ]
    typed = [["rpT"], ["rpTR"], ["rpT", "cbTy"], ["rpTR", "fbT"], ["fbT", "rpT"], ["rpT", "rpTR"]]
    jobs.append(dict(ctx=ctx, binary=binary, name="typed", stacks=typed, outs=seq.OUTS_TY, maxcalls=3 if quick else 4, execs=2, workers=4))
    jobs.append(dict(ctx=ctx, binary=binary, name="wrapped", stacks=[["rpT"], ["rpTR"], ["rpTR", "cbTy"], ["fbT", "rpTR"]], outs=seq.OUTS_WR + [seq.out("R0", seq.J("TV", "E1"))], maxcalls=3, execs=1, workers=4))
    if not quick:      # longer scripts, one execution (5 outcomes ^ 6 invocations per unlimited policy)
        jobs.append(dict(ctx=ctx, binary=binary, name="single6", stacks=single, outs=OUTS, maxcalls=6, execs=1, workers=6))
    mism = seq.run_jobs(ctx, jobs, par=3)
    seq.report(ctx, mism, accept)
    # "the budget belongs to one execution": overlapping executions (sync and async) through ONE policy instance, each with
    # its own script; every trace must be explained by the threaded model, whose retry state is per execution
    import p_c07, tscen
    from tscen import scenario, fn, start, retry, fb, cb, cE
    scs = []
    for st in ([retry(2, dly=1)], [retry(1, dly=2), retry(1, dly=1)], [fb(), retry(2, dly=1, rlf=True)], [retry(2, dly=1, a=[cE("E2")])]):
        for starts in ((0, 0, 0), (0, 1, 2), (0, 2, 2)):
            for pats in (("FFF", "FS", "S"), ("FS", "FFF", "FFF"), ("FFF", "FFF", "FE")):
                fns = [[fn(1, "R1" if c == "S" else "R0", None if c == "S" else ("E2" if c == "E" else "E1"), True) for c in p] + [fn(1, "R1")] * 2 for p in pats]
                scs.append(scenario(st, fns, [start(i + 1, at, asyn=(i == 1)) for i, at in enumerate(starts)]))
    p_c07.run_family(ctx, "c02t", scs)
    return vlib.finish(ctx, rule="retry-centred stacks: %d retry configurations (maxRetries -1/0/1/2/3, handle/abort/ReturnLastFailure, delay + max duration) alone, nested pairwise, "
                       "and combined with breaker/fallback/bulkhead/limiter; every lazily chosen script incl. timed outcomes; non-trivial = more than one invocation or any policy event" % len(RETRIES),
                       exhaustive=True)
