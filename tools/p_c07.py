"""C07 - timeout outcome is exclusive and consistent, and never early. Spec: timeout layer of specs/FailsafeT.tla
(two CompareAndSwaps, timer goroutine, listener, Cancel) with threads and virtual time. Binding: direction B - timed
scenarios (function durations limit-1 / limit / limit+1 / far, cooperating or not, slow listener, placements relative to
retry / fallback / hedge / bulkhead) run on the real library in synctest bubbles; every trace validated by TLC."""
import itertools, vlib, tscen
from tscen import *

L = 5


def scenarios(quick):
    out = []
    durs = [0, L - 1, L, L + 1, 3 * L]
    fnv = [fn(d, r, e, coop) for d in durs for (r, e) in (("R1", None), ("R0", "E1")) for coop in (False, True)]
    stacks = [
        [to(L)], [retry(2), to(L)], [to(L), retry(2)], [fb(), to(L)], [to(L), fb(h=[cE("E1")])], [retry(1), fb(h=[cE("E1")]), to(L)],
        [to(2 * L), retry(2, dly=1), to(L)], [fb(h=[cE("TimeoutExceeded")]), retry(1), to(L)],
    ]
    for st in stacks:
        pairs = itertools.product(fnv, repeat=2) if not quick else [(a, b) for a in fnv for b in (fnv[0], fnv[9], fnv[15])]
        for a, b in pairs:
            for tld in ((0, 2) if (a["d"] >= L - 1) else (0,)):
                out.append(scenario(st, [[a, b, fn(1, "R1")]], [start(1)], tld=tld))
    # placements with hedge / bulkhead
    for a in fnv:
        for b in (fnv[0], fnv[13]):
            out.append(scenario([hg(1, 2), to(L)], [[a, b]], [start(1)]))
            out.append(scenario([to(L), hg(1, 2)], [[a, b]], [start(1)]))
            out.append(scenario([bh("b", 1, wait=4), to(L)], [[a], [b]], [start(1), start(2, at=1)]))
            out.append(scenario([to(L), bh("b", 1, wait=2 * L)], [[a], [b]], [start(1), start(2, at=1)]))
    for d2 in (2, 4):
        for ct in (L + 2, L + 3, L + 5):
            fns = [[fn(L + 1, "R0", "E1", True), fn(d2 + 3, "R1", None, True), fn(1, "R1")]]
            out.append(scenario([retry(2, dly=1), to(L)], fns, [start(1), env("CtxCancel", ct, 1)]))
            out.append(scenario([retry(2, dly=1), to(L)], fns, [start(1, 0, True), env("AsyncCancel", ct, 1)]))
            out.append(scenario([fb(), retry(2), to(L)], fns, [start(1, 0, True), env("AsyncCancel", ct, 1, gap=1)]))
    # somebody else cancels first while the (non-cooperating) function still returns within the limit: a Timeout that did not
    # fire returns what is inside it unchanged and stays silent
    for st in ([to(L)], [to(2 * L), to(L)], [fb(), to(L)], [to(L), fb(h=[cE("E2")])]):
        for ct in (0, 1, 2):
            for oc in (("R1", None), ("R0", "E1")):
                fns = [[fn(3, oc[0], oc[1], False), fn(1, "R1")]]
                out.append(scenario(st, fns, [start(1), env("CtxCancel", ct, 1)]))
                out.append(scenario(st, fns, [start(1, 0, True), env("AsyncCancel", ct, 1)]))
                out.append(scenario(st, fns, [start(1, 0, ct == 1), env("CtxDeadline", ct + 1, 1)]))
    # everything inside a Timeout that fired is cancelled: a hedge policy whose delay is longer than the limit starts nothing afterwards
    for coop in (False, True):
        for oc in (("R1", None), ("R0", "E1")):
            fns = [[fn(9, oc[0], oc[1], coop)] * 4]
            out.append(scenario([to(2), hg(2, 3)], fns, [start(1)]))
            out.append(scenario([to(2), hg(2, 3, c=[cR("R2")])], fns, [start(1)]))
            out.append(scenario([retry(1, dly=1), to(2), hg(1, 3)], fns, [start(1, 0, True)]))
            # a zero time limit fires at once
            out.append(scenario([to(0)], fns, [start(1)]))
            out.append(scenario([retry(1, dly=1), to(0)], fns, [start(1)]))
            out.append(scenario([to(0), retry(1, dly=1)], fns, [start(1, 0, True)]))
    for ct in (L + 1, L + 2):
        fns = [[fn(L + 1, "R0", "E1", True), fn(2, "R1", None, True), fn(1, "R1")]]
        out.append(scenario([retry(2, dly=3), to(L)], fns, [start(1, 0, True), env("AsyncCancel", ct, 1)]))
        out.append(scenario([retry(2, dly=3), to(L)], fns, [start(1), env("CtxCancel", ct, 1)]))
        out.append(scenario([fb(), retry(2, dly=3), to(L)], fns, [start(1, 0, True), env("AsyncCancel", ct, 1, gap=1)]))
    return out


def hedge_over_retry(stack):
    ks = [d["k"] for d in stack]
    return "hg" in ks and "retry" in ks[ks.index("hg"):]


def violation_sig(info):
    st = "+".join(d["k"] for d in info["config"]["stack"])
    if hedge_over_retry(info["config"]["stack"]):
        # overlapping hedge attempts run the inner retry executor concurrently on unguarded state (known data race): its
        # behaviour there is not a function of any interleaving of atomic steps
        st = "hedge-over-retry"
    last = info["trace"][-1] if info["trace"] else {}
    return "timed:%s:%s" % (st, last.get("ev", "?"))


def scen_sig(cfg):
    st = "+".join(d["k"] for d in cfg["stack"])
    src = "+".join(sorted({e["what"] + ("/gap" if e.get("gap") else "") for e in cfg["env"] if e["what"] != "Start"}))
    asy = "async" if any(e.get("async") for e in cfg["env"]) else "sync"
    return "%s:%s:%s" % (st, src or "-", asy)


def run_family(ctx, name, scs, sigf=violation_sig, chunk=400, props=()):
    binary = vlib.build_harness(ctx)
    tscen.ASYNC_FIX = tscen.async_fix_in_code()
    for s in scs:
        s["asyncFix"] = tscen.ASYNC_FIX
    ctx.nontrivial += len(scs)
    for i in range(0, len(scs), chunk):
        part = scs[i:i + chunk]
        ok, info = tscen.run_and_validate(ctx, binary, "%s%d" % (name, i), part)
        for p in info["problems"]:
            vlib.add_violation(ctx, "timed:problem:" + p["what"][:60], p["what"], dict(scenario=p["raw"]))
        for pv in info.get("propviol", []):
            if pv["prop"] in props:
                ret = [l for l in pv["trace"] if l["ev"] == "Return"]
                vlib.add_violation(ctx, "prop:%s:%s" % (pv["prop"], scen_sig(pv["config"])),
                                   "the real trace breaks the %s predicate of specs/FailsafeTTrace.tla (returned %s)" % (pv["prop"], json.dumps(ret)[:300]),
                                   dict(config=pv["config"], trace=pv["trace"]))
        if not ok:
            vlib.add_violation(ctx, sigf(info), "no interleaving of specs/FailsafeT.tla explains line %d: %s" % (info["rejected_line"], json.dumps(info["trace"][-1])[:400]),
                               dict(config=info["config"], trace=info["trace"]))
        if i == 0 and info.get("sample"):
            ctx.samples.append(info["sample"][:12])

import json


def model_scenarios():
    out = [scenario([to(2)], [[fn(d, "R1", None, coop)]], [start(1)], tld=tld) for d in (1, 2, 3) for coop in (True, False) for tld in (0, 1)]
    for d1 in (1, 2, 3):
        for d2 in (1, 3):
            fns = [[fn(d1, "R0", "E1", True), fn(d2, "R1", None, False), fn(1, "R1")]]
            out += [scenario([retry(1), to(2)], fns, [start(1)]), scenario([to(3), retry(1, dly=1)], fns, [start(1)]), scenario([fb(), to(2)], fns, [start(1)])]
    return out


def run(ctx):
    import tmc
    tscen.ASYNC_FIX = tscen.async_fix_in_code()
    # TLC on the model alone: every schedule of the small scenarios, C07 invariants in every quiescent state
    tmc.model_check(ctx, "to", model_scenarios(), ["MC_NoStuckThread", "MC_AllReturn", "MC_C07"])
    scs = scenarios(ctx.tier == "quick")
    run_family(ctx, "to", scs)
    # the same guarantee through the HTTP adapter: a Timeout that fires returns promptly and the attempt on the wire is cancelled,
    # with and without a request body (clauses timeoutPrompt / attemptCancelled of specs/HttpAdapter.tla)
    import p_c18
    p_c18.run_http(ctx, only=p_c18.TIMEOUT_CLAUSES)
    return vlib.finish(ctx, rule="grid of timed scenarios: 8 placements of a Timeout (alone, under/over retry, with fallback, nested timeouts) + hedge and bulkhead placements x function durations "
                       "{0, limit-1, limit, limit+1, 3*limit} x outcome x cooperating-or-not for two attempts x slow/instant timeout listener; each run on the real library in virtual time and its "
                       "trace validated by TLC against FailsafeTTrace; all scenarios are distinct and involve the timer")
