"""C09 - hedge policy. Spec: hedge layer of specs/FailsafeT.tla (attempt goroutines, resultCount / resultSent / single-slot
channel, main select {timer, result} with both-ready as alternatives, parent-cancel check, cancel-losers loop, per-attempt
copies). Binding: direction B - every assignment of durations/outcomes to the attempts on a grid around the hedge delay,
cancel conditions, placements in retry/timeout/fallback; traces validated by TLC; C09 predicates on the real trace."""
import itertools, vlib, tscen, p_c07
from tscen import *


def scenarios(quick):
    out = []
    D = 2
    durs = [0, 1, 2, 3, 5] if not quick else [0, 2, 3, 5]
    outs = [("R1", None), ("R0", None), ("R0", "E2")]
    cfgs = [hg(1, D), hg(2, D), hg(2, D, c=[cR("R1")]), hg(1, D, c=[cE("E2")]), hg(2, D, c=[cR("R1")], delays=[1, 3]), hg(0, D), hg(0, D, delays=[1])]
    for h in cfgs:
        n = h["maxh"] + 1
        for ds in itertools.product(durs, repeat=n):
            for os_ in (itertools.product(outs, repeat=n) if not quick else [tuple(outs[(i + j) % 3] for j in range(n)) for i in range(3)] + [(outs[1],) * n]):
                for coop in (True, False):
                    fns = [[fn(d, o[0], o[1], coop) for d, o in zip(ds, os_)] + [fn(1, "R1")] * 3]
                    out.append(scenario([h], fns, [start(1, 0, len(out) % 3 == 2)]))
    # placements
    for ds in itertools.product([0, 2, 3], repeat=2):
        for o in outs:
            fns = [[fn(ds[0], o[0], o[1], True), fn(ds[1], "R1", None, False), fn(1, "R1"), fn(1, "R1")]]
            out.append(scenario([retry(1, dly=1), hg(1, D, c=[cR("R1")])], fns, [start(1)]))
            out.append(scenario([hg(1, D, c=[cR("R1")]), retry(1, dly=1)], fns, [start(1)]))
            out.append(scenario([to(4), hg(1, D)], fns, [start(1)]))
            out.append(scenario([hg(1, D), to(2)], fns, [start(1)]))
            out.append(scenario([fb(), hg(1, D, c=[cR("R1")])], fns, [start(1)]))
    for ds in itertools.product([1, 3], repeat=4):
        fns = [[fn(d, "R0", "E2", True) for d in ds] + [fn(1, "R1")] * 2]
        out.append(scenario([retry(1, dly=1), hg(1, D, c=[cR("R1")])], fns, [start(1)]))
        out.append(scenario([retry(1, dly=3), hg(1, D, c=[cR("R1")], delays=[1, 2])], fns, [start(1)]))
    # an attempt that fails with context.Canceled on its own account (nobody cancelled anything) is a result like any other;
    # a typed error behind a nil slot of a hand-written multi-error matches a type condition
    from seq import leaf, cT
    JN = lambda x: dict(op="JN", ch=[leaf(x)])
    for ds in itertools.product([0, 1, 3], repeat=2):
        for e1, e2 in (("CtxCanceled", "E1"), ("E1", "CtxCanceled")):
            fns = [[fn(ds[0], "R0", e1, True), fn(ds[1], "R0", e2, True), fn(1, "R1")]]
            out.append(scenario([hg(1, D)], fns, [start(1)]))
            out.append(scenario([hg(1, D, c=[cE("CtxCanceled"), cE("E2")])], fns, [start(1)]))
        fns = [[dict(fn(ds[0], "R0", "E1", True), e=JN("TV")), dict(fn(ds[1], "R0", "E1", True), e=JN("E1")), fn(1, "R1")]]
        out.append(scenario([hg(1, D, c=[cT("TV")])], fns, [start(1)]))
    for ds in itertools.product([0, 1, 3], repeat=2):
        for e1, e2 in (("TV", "E1"), ("E1", "TV"), ("TP", "TV")):
            fns = [[fn(ds[0], "R0", e1, True), fn(ds[1], "R0", e2, True), fn(1, "R1")]]
            out.append(scenario([hg(1, D, c=[cT("TV")])], fns, [start(1)]))
            out.append(scenario([hg(1, D, c=[cT("TP"), cR("R1")])], fns, [start(1)]))
    for ds in itertools.product([0, 1, 3], repeat=2):
        for e1, e2 in (("E1", "E2"), ("E2", "E1"), ("E3", "E1")):
            fns = [[fn(ds[0], "R0", e1, True), fn(ds[1], "R0", e2, True), fn(1, "R1")]]
            out.append(scenario([hg(1, D, c=[cE("E1"), cE("E2")])], fns, [start(1)]))
    return out


def model_scenarios():
    out = []
    for ds in itertools.product((1, 2, 3), repeat=2):
        for os_ in ((("R1", None), ("R0", None)), (("R0", "E2"), ("R1", None))):
            fns = [[fn(d, o[0], o[1], True) for d, o in zip(ds, os_)]]
            out.append(scenario([hg(1, 2)], fns, [start(1)]))
            out.append(scenario([hg(1, 2, c=[cR("R1")])], fns, [start(1)]))
    return out


def run(ctx):
    import tmc
    tscen.ASYNC_FIX = tscen.async_fix_in_code()
    tmc.model_check(ctx, "hg", model_scenarios(), ["MC_NoStuckThread", "MC_AllReturn", "MC_C09"])
    scs = scenarios(ctx.tier == "quick")
    p_c07.run_family(ctx, "hg", scs, props=("C09",))
    return vlib.finish(ctx, rule="hedge configurations (maxHedges 1-2, cancel on any result / on R1 / on E2) x every assignment of durations {0,1,2,3,5} (delay = 2) and outcomes to the attempts x "
                       "cooperating-or-not, plus placements under/over retry, timeout, fallback; run on the real library in virtual time; trace validated by TLC; C09 predicates (attempt bound, spacing) on the trace")
