"""C03 - circuit breaker three-state machine. Spec: specs/Breaker.tla. Binding: direction A (TLC enumerates every
history of depth D over the API alphabet with the expected observation after every step; replayed on a real
breaker inside a synctest bubble) + long random behaviours from TLC -simulate."""
import json, vlib, pipeline

INVS = "TypeOK WindowRefinement WindowBounds ClosedMeansBelowThreshold RemainingDelayExact TrialDecision Emit"
PROPS = "OpensExactlyWhen OpenAdmission OpenIsSticky TrialDirection EventPath"


def C(fthr=1, fcap=1, frate=0, fexec=0, period=0, sthr=0, scap=0, delay=3):
    return dict(fthr=fthr, fcap=fcap, frate=frate, fexec=fexec, period=period, sthr=sthr, scap=scap, delay=delay)

CT = [1, 2, 3]                 # count based: straddle the delay (3)
TT = [1, 3, 18, 19, 21]        # time based (slice 2, period 20): on/off slice edges, 9/10 and 10/10 of the period

CONFIGS = [
    ("count1", C(), CT),
    ("count2", C(2, 2), CT),
    ("ratio2of3", C(2, 3), CT),
    ("ratio2of3_s2", C(2, 3, sthr=2, scap=2), CT),
    ("ratio2of3_s2of3", C(2, 3, sthr=2, scap=3, delay=0), CT),
    ("ratio3of4", C(3, 4, delay=2), CT),
    ("period2", C(2, 2, fexec=2, period=20), TT),
    ("period2_s2", C(2, 2, fexec=2, period=20, sthr=2, scap=2), TT),
    ("period3", C(3, 3, fexec=3, period=20, delay=18), TT),
    ("rate50of2", C(frate=50, fexec=2, period=20), TT),
    ("rate34of3", C(frate=34, fexec=3, period=20, delay=0), TT),
    ("rate50of2_s2of3", C(frate=50, fexec=2, period=20, sthr=2, scap=3), TT),
    ("rate38of8", C(frate=38, fexec=8, period=20, delay=1), [1, 3]),     # 8 trials; 3 failures + 5 successes meet both rounded conditions (latitude)
    ("count1_forever", C(delay=2000000000), CT),      # "open until closed by hand": the harness builds it with the largest Duration
]


ALPHA = {   # two alphabets per configuration: the standalone API, and executions (with a delay function) + probes
    "api": (["RecS", "RecF", "Try", "open", "halfopen", "closed"], []),
    "exec": (["Try", "closed", "RecS"], [-1, 0, 1, 5]),     # delay function values: none (-1), zero, shorter and longer than the configured delay
}


def mc(cfg, ticks, depth, alpha):
    letters, dvs = ALPHA[alpha]
    tla = "---- MODULE MC ----\nEXTENDS Breaker\nMCCfg == %s\nMCTicks == %s\nMCLetters == %s\nMCExecDelays == %s\n====\n" % (
        vlib.tla_value(cfg), vlib.tla_value(set(ticks)), vlib.tla_value(set(letters)), vlib.tla_value(set(dvs)))
    c = ("SPECIFICATION Spec\nCONSTANTS\n Cfg <- MCCfg\n Ticks <- MCTicks\n Letters <- MCLetters\n ExecDelays <- MCExecDelays\n SliceU = 2\n Depth = %d\n"
         "INVARIANTS %s\nPROPERTIES %s\nCHECK_DEADLOCK FALSE\n" % (depth, INVS, PROPS))
    return tla, c


def one(ctx, binary, name, cfg, ticks, depth, unit_ns, alpha, simulate=None):
    tla, c = mc(cfg, ticks, depth, alpha)
    d = vlib.stage_specs(ctx, "br_%s_%s_%s" % (name, alpha, "sim" if simulate else "ex"), tla, c)
    hcfg = dict(cfg, unit_ns=unit_ns)
    kw = dict(timeout=3000, workers=4)
    if simulate:
        kw.update(simulate=simulate, depth=depth + 1, workers=1)
    res, recs, summ = pipeline.tlc_to_harness(ctx, d, binary, "breaker_replay", dict(cfg=json.dumps(hcfg)), kw)
    if res["viol"]:
        # the model itself breaks a C03 invariant: the design, as transcribed from the code, violates the property
        vlib.add_violation(ctx, "model:%s" % name, "TLC reports an invariant violation on the code-shaped model:\n" + "\n".join(res["tail"][-60:]),
                           dict(config=hcfg, tlc_tail=res["tail"][-80:]))
    ctx.traces += summ["n"]
    ctx.nontrivial += summ["nontrivial"]
    if summ.get("sample") and len(ctx.samples) < 4:
        ctx.samples.append(dict(config=name, unit_ns=unit_ns, history=summ["sample"]))
    for r in recs:
        if r.get("k") == "mismatch":
            what = r["what"].split(":")[0]
            vlib.add_violation(ctx, "breaker:%s:%s" % (name, what), r["what"] + " at step %d" % r["step"],
                               dict(config=r["cfg"], history=r["hist"], step=r["step"], what=r["what"]))
        if r.get("k") == "error":
            raise vlib.Inconclusive("harness error: %s" % r)


def run(ctx):
    binary = vlib.build_harness(ctx)
    quick = ctx.tier == "quick"
    units = [1_000_000, 1_000, 3_600_000_000_000]
    jobs = []
    for i, (name, cfg, ticks) in enumerate(CONFIGS):
        timed = cfg["period"] != 0
        depth = 4 if quick else (6 if timed else 7)
        for alpha in ("api", "exec"):
            # (the execution alphabet has more letters - outcome x delay-function value: one level less in the thorough tier)
            jobs.append((name, cfg, ticks, depth if quick or alpha == "api" else depth - 1, units[(i + ctx.seed) % len(units)], alpha, None))
            n, dp = (150, 30) if quick else (2000, 50)
            jobs.append((name, cfg, ticks, dp, units[(i + 1 + ctx.seed) % len(units)], alpha, "num=%d" % n))
    from concurrent.futures import ThreadPoolExecutor
    with ThreadPoolExecutor(max_workers=5) as ex:
        futs = [ex.submit(one, ctx, binary, *j) for j in jobs]
        for f in futs:
            f.result()
    ctx.assumptions += ["testing/synctest fake clock is the breaker's clock (time.Now inside a bubble)",
                        "observations only through the public CircuitBreaker API"]
    return vlib.finish(ctx, rule="every history of depth D over {RecordSuccess, RecordFailure, TryAcquirePermit, Open, HalfOpen, Close, Tick(d)} "
                       "per configuration (tree enumeration by TLC, all distinct) plus TLC -simulate random histories; non-trivial = the breaker left the closed state",
                       exhaustive=True)
