"""C15 - async results follow the future protocol and agree with sync execution. Spec: async runner of
specs/FailsafeT.tla (execute, completion listeners, then record = result.Store / done.Store / close(doneChan) as three
steps) + observer labels (IsDone, Done closed, Get) that are only enabled in states that allow them. Binding: direction B -
async executions with concurrent readers (a poller and a waiter) and cancellation at every instant; traces validated by
TLC; plus direction A - the sequential behaviours of specs/Failsafe.tla replayed through all four async/sync entry points."""
import vlib, tscen, p_c07, seq
from tscen import *


def scenarios(quick):
    out = []
    stacks = [[retry(2, dly=2)], [hg(1, 2)], [fb(), retry(1, dly=1)], [to(3), retry(1, dly=1)], [], [retry(0)], [hg(0, 2)], [to(20), hg(1, 3)]]
    T = 7 if quick else 10
    for st in stacks:
        for coop in (True, False):
            for oc in (("R0", "E1"), ("R1", None)):
                fns = [[fn(2, oc[0], oc[1], coop)] * 5]
                out.append(scenario(st, fns, [start(1, 0, True)], readers=True))
                for t in range(0, T):
                    for gap in (0, 1):
                        out.append(scenario(st, fns, [start(1, 0, True), env("AsyncCancel", t, 1, gap=gap)], readers=True))
    # a Cancel while an earlier cancellation result (a timed-out attempt) is still stored
    for ct in (4, 5, 6):
        fns = [[fn(4, "R0", "E1", True), fn(2, "R1", None, True), fn(1, "R1")]]
        out.append(scenario([retry(2, dly=3), to(3)], fns, [start(1, 0, True), env("AsyncCancel", ct, 1)], readers=True))
    for ev_, st in (("OnFailure", [retry(2, dly=2)]), ("OnRetryScheduled", [retry(2, dly=2)]), ("OnFailure", [fb(), retry(1, dly=1)]),
                    ("OnRetry", [retry(2, dly=2)]), ("OnFailure", [retry(1, dly=1), to(9)])):
        fns = [[fn(1, "R0", "E1", True)] * 4]
        at = 3 if ev_ == "OnRetry" else 1
        out.append(scenario(st, fns, [start(1, 0, True), env("AsyncCancel", at, 1, id="in:" + ev_)], readers=True))
        out.append(scenario(st, fns, [start(1, 0, False), env("CtxCancel", at, 1, id="in:" + ev_)]))
    # ONE executor, no per-execution context: what happened to an earlier execution (cancelled, timed out) leaves the next one alone
    for st in ([retry(1, dly=1)], [to(2), retry(1, dly=1)], [hg(1, 2)], []):
        fns = [[fn(3, "R0", "E1", True)] * 3, [fn(1, "R1", None, True)] * 3, [fn(1, "R0", "E1", True)] * 3]
        out.append(scenario(st, fns, [start(1, 0, True), env("AsyncCancel", 1, 1), start(2, 9, True), start(3, 15, False)], noctx=True))
        out.append(scenario(st, fns, [start(1, 0, True), start(2, 9, False), start(3, 15, True), env("AsyncCancel", 15, 3)], noctx=True))
    for ct in (1, 2):
        for oc in (("R0", "E1"), ("R1", None)):
            fns = [[fn(5, oc[0], oc[1], False), fn(1, "R1")]]
            out.append(scenario([retry(2, dly=1), to(3)], fns, [start(1, 0, True), env("AsyncCancel", ct, 1)], readers=True))
            out.append(scenario([to(3)], fns, [start(1, 0, True), env("AsyncCancel", ct, 1)], readers=True))
            out.append(scenario([hg(1, 9), to(3)], fns, [start(1, 0, True), env("AsyncCancel", ct, 1)], readers=True))
    return out


def run(ctx):
    binary = vlib.build_harness(ctx)
    scs = scenarios(ctx.tier == "quick")
    p_c07.run_family(ctx, "as", scs, props=("C15", "C08"))
    # async == sync on deterministic behaviours: all eight entry points
    names = ["rp1", "rpH", "cbA", "fbR", "fbE", "bh1", "cK", "to", "hgR"]
    st = seq.all_stacks(names, 2 if ctx.tier == "quick" else 3)
    mm = seq.run_family(ctx, binary, "entries", st, outs=seq.OUTS3 + [seq.out("R1", "E2")], maxcalls=3, execs=1 if ctx.tier == "quick" else 2, entries=8)
    seq.report(ctx, mm, lambda m: m["tag"] in ("calls", "ret", "verdict") and m["entry"] >= 1)
    return vlib.finish(ctx, rule="async executions through 5 compositions x cooperating-or-not x outcome, with two concurrent readers (IsDone poller, Done waiter + Result/Error) and ExecutionResult.Cancel at every unit "
                       "instant (held 0/1 units between its halves); traces validated by TLC incl. observer labels; C15 predicates on the trace; plus every sequential behaviour of depth<=2 stacks over 9 descriptors "
                       "replayed through Get / GetWithExecution / GetAsync / GetWithExecutionAsync / Run / RunWithExecution / RunAsync / RunWithExecutionAsync and compared")
