"""C16 - events are emitted exactly once per occurrence and tell a consistent story. Spec: event log of
specs/Failsafe.tla (every listener call is an event appended by the action that performs it) + C16_* invariants.
Every listener of every builder is registered (in 5 registration variants) and the ordered log compared."""
import vlib, seq

NAMES = ["rp", "rpA", "rpL", "rpH", "cbA", "cbC", "rl2", "bh1", "fbR", "fbE", "cK", "cIf", "to", "hg", "hgR"]


def accept(m):
    return m["tag"] in ("evname", "evextra", "verdict")


def run(ctx):
    binary = vlib.build_harness(ctx)
    quick = ctx.tier == "quick"
    st = seq.all_stacks(NAMES, 2 if quick else 3)
    parts = 2 if quick else 8
    jobs = [dict(ctx=ctx, binary=binary, name="ev%d" % k, stacks=st[k::parts], outs=seq.OUTS3, maxcalls=3 if quick else 4, execs=2, workers=8, entries=1 if quick else 2) for k in range(parts)]
    mism = seq.run_jobs(ctx, jobs, par=2)
    seq.report(ctx, mism, accept)
    return vlib.finish(ctx, rule="all stacks of depth <= D over %d descriptors; the ordered per-execution log of every listener (name, policy, payload) compared with the spec's, under 5 listener-registration variants; "
                       "non-trivial = more than one invocation or any policy event" % len(NAMES), exhaustive=True)
