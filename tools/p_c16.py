"""C16 - events are emitted exactly once per occurrence and tell a consistent story. Spec: event log of
specs/Failsafe.tla (every listener call is an event appended by the action that performs it) + C16_* invariants.
Every listener of every builder is registered (in 5 registration variants) and the ordered log compared."""
import vlib, seq

NAMES = ["rp", "rpA", "rpL", "rpH", "cbA", "cbC", "rl2", "bh1", "fbR", "fbE", "fbHE", "fbRR", "cK", "cIf", "to", "hg", "hgR"]


def accept(m):
    return m["tag"] in ("evname", "evextra", "verdict")


def run(ctx):
    binary = vlib.build_harness(ctx)
    quick = ctx.tier == "quick"
    st = seq.all_stacks(NAMES, 2 if quick else 3)
    parts = 2 if quick else 8
    jobs = [dict(ctx=ctx, binary=binary, name="ev%d" % k, stacks=st[k::parts], outs=seq.OUTS3, maxcalls=3 if quick else 4, execs=2, workers=8, entries=1 if quick else 2) for k in range(parts)]
    # retries that end because their max duration ran out (before or after the retry count), with and without ReturnLastFailure:
    # timed outcomes, every retry listener
    outs_t = [seq.out("R1", d=1), seq.out("R0", "E1"), seq.out("R0", "E1", d=1), seq.out("R0", "E1", d=2), seq.out("R0", "E2", d=3)]
    timed = [["rpD"], ["rpDL"], ["rpUD"], ["rpDL", "cbA"], ["fbR", "rpDL"], ["rpDL", "rp1"], ["to", "rpDL"]]
    jobs.append(dict(ctx=ctx, binary=binary, name="evtimed", stacks=timed, outs=outs_t, maxcalls=4, execs=1, workers=4))
    mism = seq.run_jobs(ctx, jobs, par=2)
    seq.report(ctx, mism, accept)
    # events under concurrency: OnFull / OnTimeoutExceeded / OnHedge / OnRetry fire exactly when the model's step happens
    # (waits cancelled by a context or an enclosing Timeout, retries cut short by cancellation)
    import p_c07, tscen
    from tscen import scenario, fn, start, env, to, hg, bh, retry, fb
    scs = []
    for st in ([bh("b", 1, wait=5)], [to(3), bh("b", 1, wait=5)], [retry(2, dly=2), bh("b", 1, wait=1)], [hg(1, 2), bh("b", 2, wait=3)], [fb(), retry(1, dly=3), to(2)]):
        for ct in (1, 2, 3, 4):
            fns = [[fn(6, "R1", None, True)] * 3, [fn(2, "R0", "E1", True)] * 3, [fn(2, "R1", None, True)] * 3]
            scs.append(scenario(st, fns, [start(1), start(2, 1), start(3, 1, True), env("CtxCancel", ct, 2)]))
            scs.append(scenario(st, fns, [start(1), start(2, 1), start(3, 1, True), env("AsyncCancel", ct, 3)]))
    from tscen import rl
    for t in (1, 2, 3):
        fns = [[fn(1, "R0", "E1", True)] * 3, [fn(1, "R0", "E1", True)] * 3]
        scs.append(scenario([retry(1, dly=1), rl("r", 3, wait=1)], fns, [start(1), start(2, 1), env("CtxCancel", t, 2)]))
        scs.append(scenario([retry(2, dly=1), rl("r", 2, wait=0)], fns, [start(1), start(2, 1)]))
    # OnHedge / OnRetryScheduled / OnRetry belong to a hedge or retry that happens: the execution is cancelled (caller, outer
    # Timeout, async Cancel) while a hedge delay or retry delay is running and the attempt in flight does not notice
    for st in ([hg(2, 2)], [to(1), hg(1, 2)], [to(3), hg(2, 2)], [retry(2, dly=3)], [to(3), retry(2, dly=2)], [fb(), hg(1, 3), retry(1, dly=2)]):
        for coop in (False, True):
            fns = [[fn(5, "R0", "E1", coop), fn(1, "R0", "E1", coop), fn(5, "R0", "E1", coop)]]
            scs.append(scenario(st, fns, [start(1)]))
            for ct in (1, 2, 3, 4):
                scs.append(scenario(st, fns, [start(1), env("CtxCancel", ct, 1)]))
                scs.append(scenario(st, fns, [start(1, 0, True), env("AsyncCancel", ct, 1)]))
    p_c07.run_family(ctx, "c16t", scs, props=("C16",))
    return vlib.finish(ctx, rule="all stacks of depth <= D over %d descriptors; the ordered per-execution log of every listener (name, policy, payload) compared with the spec's, under 5 listener-registration variants; "
                       "non-trivial = more than one invocation or any policy event" % len(NAMES), exhaustive=True)
