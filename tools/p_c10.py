"""C10 - fallback replaces exactly the failures it handles, once. Spec: fallback layer of specs/Failsafe.tla + C10_*
invariants; fallback-centred family: every fallback kind/condition set over inner compositions that produce plain
results, handled/unhandled errors, ExceededError, ErrOpen, ErrFull, rate-limit errors."""
import vlib, seq

FBS = ["fbR", "fbE", "fbH", "fbH2", "fbX", "fbO", "fbHE", "fbRR", "fbZ", "fbOR"]
INNER1 = ["rp1", "rp0", "rpH", "rpL", "cbA", "bh2p", "rl2", "cK", "to", "hgR", "fbH"]


def accept(m):
    return m["tag"] in ("calls", "ret", "verdict") or m["kind"] == "fb"


def run(ctx):
    binary = vlib.build_harness(ctx)
    quick = ctx.tier == "quick"
    st = [[f] for f in FBS] + [[f, i] for f in FBS for i in INNER1] + [[i, f] for f in FBS for i in INNER1]
    st += [[f, "bh1", "bh1"] for f in FBS] + [[f, "rp1", "cbA"] for f in FBS] + [[f, g] for f in FBS for g in FBS]
    if not quick:
        st += [[f, i, j] for f in FBS for i in INNER1 for j in INNER1 if not (seq.CATALOG[i]["k"] == "hg" and seq.CATALOG[j]["k"] == "hg")]
    jobs = [dict(ctx=ctx, binary=binary, name="fb%d" % k, stacks=st[k::3], outs=seq.OUTS4, maxcalls=3 if quick else 4, execs=2, workers=6) for k in range(3)]
    typed = [["fbT"], ["fbT", "rpT"], ["fbT", "cbTy"], ["fbT", "rpA"], ["fbT", "cbA"], ["fbH2", "fbT"], ["fbT", "rpTR"]]
    jobs.append(dict(ctx=ctx, binary=binary, name="fbtyped", stacks=typed, outs=seq.OUTS_TY, maxcalls=3, execs=2, workers=4))
    wrapped = [["fbT"], ["fbH"], ["fbT", "rpT"], ["fbH2", "rpTR"], ["fbT", "cbTy"]]
    jobs.append(dict(ctx=ctx, binary=binary, name="fbwrap", stacks=wrapped, outs=seq.OUTS_WR, maxcalls=3, execs=2, workers=4))
    mism = seq.run_jobs(ctx, jobs, par=3)
    seq.report(ctx, mism, accept)
    # a cancellation that arrives while the fallback's (slow) OnFailure listener runs: no fallback for a cancelled execution
    import p_c07, tscen
    from tscen import scenario, fn, start, env, to, retry, fb
    scs = []
    for st in ([fb(fld=2)], [fb(fld=2), retry(1, dly=1)], [to(3), fb(fld=2)], [retry(1, dly=1), fb(fld=2)]):
        for ct in (0, 1, 2, 3, 4):
            for asyn in (False, True):
                fns = [[fn(1, "R0", "E1", True)] * 4]
                scs.append(scenario(st, fns, [start(1, 0, asyn), env("AsyncCancel" if asyn else "CtxCancel", ct, 1)]))
        scs.append(scenario(st, [[fn(2, "R0", "E1", True)] * 4], [start(1)]))
    # a fallback INSIDE a hedge policy: attempts fail with different errors while each other's (slow) OnFailure listener is still
    # running; the fallback function of every attempt sees the failure of that attempt
    from tscen import hg, cR, cE
    for ds in ((2, 1), (3, 1), (1, 3), (2, 2)):
        for coop in (True, False):
            fns = [[fn(ds[0], "R0", "E1", coop), fn(ds[1], "R2", "E2", coop), fn(1, "R0", "E3", coop)]]
            for st in ([hg(1, 1, c=[cR("R1")]), fb(fld=2)], [hg(2, 1, c=[cR("R1")]), fb(fld=3)], [hg(1, 1, c=[cR("R1")]), fb(fld=2, fe="EFB")], [hg(1, 1, c=[cR("R1")]), fb(fld=2, h=[cE("E1")])]):
                scs.append(scenario(st, fns, [start(1)]))
    p_c07.run_family(ctx, "c10t", scs)       # (the C08 promptness predicate assumes listeners that take no time: acceptance by the model is the check here)
    return vlib.finish(ctx, rule="fallback-centred stacks (5 fallback configurations: result / error / handled subset / ErrExceeded+result / ErrOpen) over and under %d inner policies; "
                       "every lazily chosen script, 2 executions; non-trivial = more than one invocation or any policy event" % len(INNER1), exhaustive=True)
