#!/usr/bin/env python3
import json, sys, os, glob
sys.path.insert(0, "/opt/veriftools/pyvenv/lib/python3.11/site-packages")
V = os.path.dirname(os.path.dirname(os.path.abspath(__file__)))
try:
    import jsonschema
except ImportError:
    print("jsonschema unavailable"); sys.exit(0)
jsonschema.validate(json.load(open(V + "/MANIFEST.json")), json.load(open("/root/.vp/MANIFEST.schema.json")))
es = json.load(open("/root/.vp/EVIDENCE.schema.json"))
for f in sorted(glob.glob(V + "/evidence/*.json")):
    jsonschema.validate(json.load(open(f)), es)
    print("ok", os.path.basename(f))
print("manifest ok")
