"""C04 - open breaker admits nothing; half-open admits at most its trial capacity; every trial returns its permit.
Spec: breaker layer of specs/FailsafeT.tla over specs/BreakerOps.tla (admission and recording under the breaker mutex as
atomic steps of concurrent execution threads). Binding: direction B - concurrent executions (alone, under retry / timeout /
fallback) through one breaker with failures, cancellations and timeouts; traces validated by TLC; C04 predicates on the real
trace; breaker state and remaining half-open permits probed at quiescence."""
import itertools, vlib, tscen, p_c07
from tscen import *

def brk(fthr, fcap, delay, sthr=0, scap=0):
    return dict(fthr=fthr, fcap=fcap, frate=0, fexec=0, period=0, sthr=sthr, scap=scap, delay=delay)


def scenarios(quick):
    out = []
    cfgs = [brk(1, 1, 3), brk(2, 2, 3), brk(1, 1, 3, sthr=2, scap=2), brk(2, 3, 2, sthr=1, scap=2)]
    stacks = [lambda c: [cb("c", c)], lambda c: [retry(1, dly=1), cb("c", c)], lambda c: [to(2), cb("c", c)], lambda c: [fb(), cb("c", c)]]
    for mk in stacks:
        for c in cfgs:
            st = mk(c)
            for starts in ((0, 0, 0, 4), (0, 1, 3, 3), (0, 0, 3, 5), (0, 3, 3, 3)):
                for ds in ((1, 1, 1, 1), (2, 1, 3, 1), (4, 4, 1, 1)):
                    for pat in ("FFFF", "FSFS", "FFSS", "SFFS"):
                        fns = [[fn(d, "R1" if p == "S" else "R0", None if p == "S" else "E1", True)] * 3 for d, p in zip(ds, pat)]
                        base = [start(i + 1, at, asyn=(i % 2 == 1)) for i, at in enumerate(starts)]
                        out.append(scenario(st, fns, base))
                        if not quick or pat in ("FFFF", "FSFS"):
                            out.append(scenario(st, fns, base + [env("CtxCancel", 3, 3)]))
    # a trial the breaker counts as a success although something inside it failed (inner retries exceeded / inner timeout on an
    # error the breaker does not handle) still has to give its permit back
    for c in (brk(1, 1, 2, sthr=2, scap=2), brk(1, 1, 2)):
        for inner in ([retry(0)], [to(1)], [fb(fr="R0", fe="EFB", h=[cE("E3")])]):
            st = [cb("c", c, h=[cE("E2")])] + inner
            fns = [[fn(1, "R0", "E2", True)] * 2, [fn(2, "R0", "E1", True)] * 2, [fn(2, "R0", "E1", True)] * 2, [fn(1, "R1", None, True)] * 2]
            out.append(scenario(st, fns, [start(1, 0), start(2, 3), start(3, 6), start(4, 9)]))
            out.append(scenario(st, fns, [start(1, 0), start(2, 3), start(3, 3), start(4, 7, True)]))
    # rate-based breaker, two trial executions allowed: a trial that finished has handed its permit back while another is in flight
    rate = dict(fthr=0, fcap=0, frate=50, fexec=2, period=20, sthr=0, scap=0, delay=2)
    for d3 in (1, 3):
        for t5 in (5, 6):
            fns = [[fn(1, "R0", "E1", True)] * 2, [fn(1, "R0", "E1", True)] * 2, [fn(d3, "R1", None, True)] * 2, [fn(4, "R1", None, True)] * 2, [fn(1, "R1", None, True)] * 2]
            out.append(scenario([cb("c", rate)], fns, [start(1, 0), start(2, 1), start(3, 4), start(4, t5), start(5, t5 + 1, True)]))
    # the same protocol at microsecond scale: an open breaker admits nothing until its (sub-millisecond) delay has run out to the last unit
    for t2 in (1, 2, 3, 4):
        fns = [[fn(0, "R0", "E1", True)] * 2, [fn(0, "R1", None, True)] * 2, [fn(0, "R1", None, True)] * 2]
        out.append(scenario([cb("c", brk(1, 1, 3))], fns, [start(1, 0), start(2, t2), start(3, 3, True)], unit_ns=1000))
        out.append(scenario([retry(1, dly=t2), cb("c", brk(1, 1, 3))], fns, [start(1, 0)], unit_ns=1000))
    # a delay function: the breaker stays open for what the function asks for - when it first opens and when a failed trial re-opens it
    for dfn in (4, 1):
        for t4 in (8, 9, 10):
            fns = [[fn(1, "R0", "E1", True)] * 2, [fn(1, "R1", None, True)] * 2, [fn(1, "R0", "E1", True)] * 2, [fn(1, "R1", None, True)] * 2]
            out.append(scenario([cb("c", brk(1, 1, 2), dfn=dfn)], fns, [start(1, 0), start(2, 3), start(3, 5), start(4, t4, True)]))
            out.append(scenario([retry(1, dly=2), cb("c", brk(1, 1, 2), dfn=dfn)], fns, [start(1, 0), start(3, 5), start(4, t4)]))
    # the standalone Open / HalfOpen / Close while trials are in flight: a call that changes nothing (already in that state)
    # must not hand out permits again; a forced transition abandons the trials in flight
    for c in (brk(1, 1, 3, sthr=2, scap=2), brk(1, 1, 3)):
        for op in ("CbHalfOpen", "CbOpen", "CbClose"):
            for at in (5, 6):
                fns = [[fn(1, "R0", "E1", True)] * 2, [fn(3, "R1", None, True)] * 2, [fn(3, "R1", None, True)] * 2, [fn(1, "R1", None, True)] * 2, [fn(1, "R0", "E1", True)] * 2]
                out.append(scenario([cb("c", c)], fns, [start(1, 0), start(2, 4), start(3, 5), env(op, at, id="c"), start(4, 6, True), start(5, 9)]))
    return out


def model_scenarios():
    out = []
    for c in (brk(1, 1, 2), brk(1, 1, 2, sthr=1, scap=2)):
        for pat in ("FF", "FS"):
            fns = [[fn(1, "R1" if p == "S" else "R0", None if p == "S" else "E1", True)] for p in pat]
            out.append(scenario([cb("c", c)], fns, [start(1, 0), start(2, 3)]))          # second execution is the half-open trial
            out.append(scenario([cb("c", c)], fns, [start(1, 0), start(2, 0)]))          # racing the failure that opens it
        fns = [[fn(1, "R0", "E1", True)], [fn(3, "R1", None, True)]]
        out.append(scenario([cb("c", c)], fns, [start(1, 0), start(2, 3), env("CtxCancel", 4, 2)]))   # a cancelled trial
    return out


def run(ctx):
    import tmc
    tscen.ASYNC_FIX = tscen.async_fix_in_code()
    tmc.model_check(ctx, "cb", model_scenarios(), ["MC_NoStuckThread", "MC_AllReturn", "MC_C04", "MC_TrialPermits"])
    scs = scenarios(ctx.tier == "quick")
    if ctx.tier == "quick":      # several concurrent executions make validation expensive: every 6th scenario, offset by the seed
        scs = scs[ctx.seed % 6::6] + scs[-48:]
    p_c07.run_family(ctx, "cb", scs, props=("C04",))
    # time-based breakers with a short open delay under retries that wait (sequential machine, direction A): rejected while
    # open, the trial after the delay, re-opening / closing inside one execution and across successive executions
    import seq
    binary = vlib.build_harness(ctx)
    outs_t = [seq.out("R1"), seq.out("R0", "E1"), seq.out("R0", "E1", d=1), seq.out("R1", d=2)]
    st = [["rpW", "cbT"], ["rpW", "cbR"], ["cbT", "rpW"], ["rpD", "cbT"], ["rpW", "fbO", "cbT"], ["rpW", "cbT", "cbR"], ["rpW", "cbR", "to"],
          ["rpW", "cbDF"], ["rp3", "cbDF"], ["cbDF", "rpW"]]
    mm = seq.run_family(ctx, binary, "cbseq", st, outs=outs_t, maxcalls=4, execs=2 if ctx.tier == "quick" else 3)
    seq.report(ctx, mm, lambda m: m["tag"] in ("calls", "ret", "verdict", "probe") or m.get("kind") == "cb")
    return vlib.finish(ctx, rule="4 breaker configurations (thresholds 1-2, success thresholds, delay 2-3) x 4 placements (alone, under retry, under a timeout that fires, under fallback) x 4 executions "
                       "(sync/async) with staggered starts, durations and success/failure patterns x optional cancellation; traces validated by TLC; open/half-open predicates on the trace; state and remaining "
                       "half-open permits probed at quiescence")
