"""C05 - rate limiter. Spec: specs/Limiter.tla (code-shaped operators + the property's definitional earliest-grant
model over the grant log). TLC checks the refinement on every history; the emitted histories carry the DEFINITION's
answers and are replayed on real limiters in synctest bubbles."""
import json, vlib, pipeline
from concurrent.futures import ThreadPoolExecutor

INVS = "SlotBound Ordered EarliestGrant BatchEquivalence RefusalIsNoOp Emit"


def L(api, k, mw, dl=0):
    return dict(api=api, k=k, mw=mw, dl=dl)

# name, kind, I, P, M, executor maxWait, letters, ticks
CONFIGS = [
    ("smooth3", "smooth", 3, 1, 1, 0, [L("Try", 1, 0), L("Try", 2, 0), L("Reserve", 1, -1), L("Reserve", 3, -1), L("TryReserve", 1, 3), L("TryReserve", 2, 2), L("Exec", 1, 0)], [1, 2, 3, 10]),
    ("smooth4w", "smooth", 4, 1, 1, 5, [L("Try", 1, 0), L("Reserve", 2, -1), L("TryReserve", 2, 4), L("Block", 1, -1), L("Block", 2, 4), L("BlockDl", 1, 9, 2), L("Exec", 1, 5)], [1, 3, 4, 9]),
    ("smooth1", "smooth", 1, 1, 1, 1, [L("Try", 1, 0), L("Reserve", 2, -1), L("TryReserve", 3, 1), L("Block", 1, 1), L("Exec", 1, 1)], [1, 2]),
    ("bursty2x4", "bursty", 1, 4, 2, 0, [L("Try", 1, 0), L("Try", 2, 0), L("Reserve", 1, -1), L("Reserve", 3, -1), L("TryReserve", 1, 4), L("TryReserve", 3, 3), L("Exec", 1, 0)], [1, 3, 4, 13]),
    ("bursty1x4w", "bursty", 1, 4, 1, 6, [L("Try", 1, 0), L("Reserve", 2, -1), L("TryReserve", 2, 8), L("Block", 1, -1), L("Block", 2, 4), L("BlockDl", 2, 8, 3), L("Exec", 1, 6)], [1, 4, 5, 22]),
    ("bursty3x5", "bursty", 1, 5, 3, 5, [L("Try", 2, 0), L("Reserve", 4, -1), L("Reserve", 1, -1), L("TryReserve", 3, 5), L("Block", 3, 10), L("Exec", 1, 5)], [2, 5, 8, 26]),
]


def mc(kind, I, P, M, letters, ticks, depth, capped, sim=False):
    tla = "---- MODULE MC ----\nEXTENDS Limiter\nMCLetters == %s\nMCTicks == %s\n====\n" % (
        "{" + ", ".join(vlib.tla_value(l) for l in letters) + "}", vlib.tla_value(set(ticks)))
    c = ("SPECIFICATION Spec\nCONSTANTS\n Kind = \"%s\"\n I = %d\n P = %d\n M = %d\n Capped = %s\n Letters <- MCLetters\n Ticks <- MCTicks\n Depth = %d\n"
         "INVARIANTS %s\nCHECK_DEADLOCK FALSE\n" % (kind, I, P, M, "TRUE" if capped else "FALSE", depth, INVS if sim else INVS + " SlotBoundDirect"))
    return tla, c


def capped_in_code():
    """Which variant of the bursty roll-over does the working tree have? (decides which code-shaped constant is bound)"""
    src = open(vlib.REPO + "/ratelimiter/ratelimiterstats.go").read()
    return "min(" in src.replace(" ", "") and "periodPermits)" in src


def one(ctx, binary, name, kind, I, P, M, xmw, letters, ticks, depth, unit_ns, simulate=None):
    tla, c = mc(kind, I, P, M, letters, ticks, depth, True, sim=bool(simulate))
    d = vlib.stage_specs(ctx, "rl_%s_%s" % (name, "sim" if simulate else "ex"), tla, c)
    hcfg = dict(kind=kind, I=I, P=P, M=M, maxWait=xmw, unit_ns=unit_ns)
    kw = dict(timeout=1500, workers=4)
    if simulate:
        kw.update(simulate=simulate, depth=depth + 1, workers=1)
    res, recs, summ = pipeline.tlc_to_harness(ctx, d, binary, "limiter_replay", dict(cfg=json.dumps(hcfg)), kw)
    if res["viol"]:
        raise vlib.Inconclusive("the specification itself violates a C05 invariant (model out of date?):\n" + "\n".join(res["tail"][-40:]))
    ctx.traces += summ["n"]
    ctx.nontrivial += summ["nontrivial"]
    if summ.get("sample") and len(ctx.samples) < 4:
        ctx.samples.append(dict(config=name, unit_ns=unit_ns, history=summ["sample"]))
    for r in recs:
        if r.get("k") == "mismatch":
            steps = r["hist"][: r["step"] + 1]
            sig = "limiter:%s:%s" % (kind, classify(kind, M, P, steps, r["what"]))
            vlib.add_violation(ctx, sig, r["what"] + " at step %d" % r["step"], dict(config=r["cfg"], history=r["hist"], step=r["step"], what=r["what"]))
        if r.get("k") == "error":
            raise vlib.Inconclusive("harness error: %s" % r)


def conc(ctx, binary, name, kind, I, P, M, unit_ns, trials):
    """Concurrent callers at one instant (direction B): rounds recorded from the real limiter, validated by TLC against the
    property's definition (specs/LimiterConc.tla)."""
    import os, re, tracecheck
    path = os.path.join(ctx.work, "conc_%s.ndjson" % name)
    hcfg = dict(kind=kind, I=I, P=P, M=M, maxWait=0, unit_ns=unit_ns)
    r = vlib.run_harness(ctx, binary, "limiter_conc", args=dict(cfg=json.dumps(hcfg), n=trials, out=path, rounds=12, g=8), env_extra={"VH_SEED": str(ctx.seed)}, timeout=1200)
    recs, summ = vlib.harness_summary(ctx, r, "limiter_conc")
    ctx.traces += summ["n"]
    ctx.nontrivial += min(summ["nontrivial"], summ["n"])
    ctx.evaluations += summ["events"]
    tla = "---- MODULE MC ----\nEXTENDS LimiterConc\n====\n"
    cfg = ("SPECIFICATION TraceSpec\nCONSTANTS\n TraceFile = \"%s\"\n Kind = \"%s\"\n I = %d\n P = %d\n M = %d\nCONSTRAINT Progress\nPOSTCONDITION TraceAccepted\nCHECK_DEADLOCK FALSE\n"
           % (path, kind, I, P, M))
    d = vlib.stage_specs(ctx, "tv_conc_" + name, tla, cfg)
    viol = []

    def cb(line):
        m = re.match(r'<<"LVIOL", (\d+), (.*)>>', line)
        if m:
            viol.append((int(m.group(1)), m.group(2)))
        return False
    res = vlib.run_tlc(ctx, d, workers=1, dfs=True, timeout=900, allow_fail=True, line_cb=cb)
    if not res["ok"]:
        raise vlib.Inconclusive("LimiterConc validation did not complete for %s:\n%s" % (name, "\n".join(res["tail"][-30:])))
    for ln, want in viol[:3]:
        lines = tracecheck.read_lines(path, 1, ln)
        start = max(i for i, l in enumerate(lines) if l["ev"] == "Reset")
        rounds = lines[start + 1:]
        got = rounds[-1]
        api = "Try" if got["mw"] == 0 else "Reserve" if got["mw"] == -1 else "TryReserve"
        vlib.add_violation(ctx, "limiter:%s:conc:%s" % (kind, api), "%d concurrent callers at t=%d (maxWait %d) were granted waits %s; the definition grants %s after the earlier rounds"
                           % (got["n"], got["t"], got["mw"], got["waits"], want), dict(config=hcfg, rounds=rounds, expected_waits=want))


def classify(kind, M, P, steps, what):
    """Signature of a mismatch: the API call that disagreed."""
    last = steps[-1]
    return "%s:%s" % (last["act"], "early" if ("got 0s" in what or "want wait" in what) else "other")


def run(ctx):
    binary = vlib.build_harness(ctx)
    quick = ctx.tier == "quick"
    units = [1_000_000, 1_000, 3_600_000_000_000]
    jobs = []
    for i, (name, kind, I, P, M, xmw, letters, ticks) in enumerate(CONFIGS):
        depth = 4 if quick else 6
        jobs.append((name, kind, I, P, M, xmw, letters, ticks, depth, units[(i + ctx.seed) % 3], None))
        n, dp = (200, 40) if quick else (1500, 60)
        jobs.append((name, kind, I, P, M, xmw, letters, ticks, dp, units[(i + 1 + ctx.seed) % 3], "num=%d" % n))
    with ThreadPoolExecutor(max_workers=5) as ex:
        fs = [ex.submit(one, ctx, binary, *j) for j in jobs]
        for i, (name, kind, I, P, M, xmw, letters, ticks) in enumerate(CONFIGS):
            fs.append(ex.submit(conc, ctx, binary, name, kind, I * 2, P * 2, M, units[(i + ctx.seed) % 2], 60 if quick else 1500))
        for f in fs:
            f.result()
    return vlib.finish(ctx, rule="every history of depth D over the configured call/tick alphabet per limiter configuration (TLC tree enumeration) + TLC -simulate random long histories; "
                       "plus 2-8 concurrent callers at one virtual instant x 12 rounds per limiter (TryAcquirePermit / TryReservePermit / ReservePermit), answers validated by TLC against the definition (LimiterConc.tla); "
                       "non-trivial = at least one request had to wait or was refused", exhaustive=True)
