"""Timed/threaded scenarios for specs/FailsafeT.tla: build scenarios, run them on the real library (harness mode tscen),
validate the recorded traces with TLC against specs/FailsafeTTrace.tla."""
import json, os, re, vlib

NIL = dict(op="nil", ch=[])
def leaf(x): return dict(op=x, ch=[])
def cE(v): return dict(t="errors", v=v)
def cR(v): return dict(t="result", v=v)

def retry(max=2, h=(), a=(), rlf=False, dly=0, maxd=0): return dict(k="retry", max=max, h=list(h), a=list(a), rlf=rlf, dly=dly, maxd=maxd)
def to(limit): return dict(k="to", limit=limit)
def hg(maxh=1, delay=2, c=(), delays=()): return dict(k="hg", maxh=maxh, delay=delay, c=list(c), delays=list(delays))
def fb(fr="RF", fe=None, h=(), fld=0): return dict(k="fb", fr=fr, fe=leaf(fe) if fe else NIL, h=list(h), fld=fld)
def bh(id, max=1, wait=0): return dict(k="bh", id=id, max=max, wait=wait)
def rl(id, ival=3, wait=0): return dict(k="rl", id=id, ival=ival, wait=wait)
BR1 = dict(fthr=1, fcap=1, frate=0, fexec=0, period=0, sthr=0, scap=0, delay=1000)
def cb(id, cfg=BR1, h=(), dfn=-1): return dict(k="cb", id=id, cfg=cfg, h=list(h), dfn=dfn)

def fn(d=0, r="R1", e=None, coop=False): return dict(d=d, r=r, e=leaf(e) if e else NIL, coop=coop)
def start(x, at=0, asyn=False, dl=-1, ck="none"): return dict(at=at, what="Start", x=x, **{"async": asyn}, id="", gap=0, dl=dl, ck=ck)
def env(what, at, x=0, id="", gap=0): return dict(at=at, what=what, x=x, **{"async": False}, id=id, gap=gap, dl=-1, ck="none")
def cache(id, key="k", ifc=()): return dict(k="cache", id=id, key=key, ifc=list(ifc))


def scenario(stack, fns, envs, tld=0, async_fix=None, unit_ns=1_000_000, default=None, readers=False, noctx=False):
    nx = max([e["x"] for e in envs if e["what"] == "Start"] + [1])
    bhmax = {d["id"]: d["max"] for d in stack if d["k"] == "bh"}
    # env("CtxDeadline", t, x): the context execution x is started with carries a deadline at instant t (no action of the controller)
    dls = {e["x"]: e["at"] for e in envs if e["what"] == "CtxDeadline"}
    envs = [dict(e, dl=dls[e["x"]]) if e["what"] == "Start" and e["x"] in dls else e for e in envs if e["what"] != "CtxDeadline"]
    envs = sorted(envs, key=lambda e: e["at"])
    return dict(stack=stack, fns=fns, fnDefault=default or fn(0, "R2"), env=envs, nx=nx, tld=tld,
                asyncFix=ASYNC_FIX if async_fix is None else async_fix, bhmax=bhmax, unit_ns=unit_ns, readers=readers, noctx=noctx)


def async_fix_in_code():
    """Does the working tree give the async root execution its cancel function (fix for the two-step async Cancel)?"""
    src = open(vlib.REPO + "/executor.go").read()
    return "exec.cancelFunc = cancelFunc" in src.replace("\t", " ")

ASYNC_FIX = False


def run_and_validate(ctx, binary, name, scenarios, timeout=1800, env_extra=None, tolerate_aborted=False):
    """Returns (ok, info). info on rejection: dict(scenario=..., trace=[...], line=...)."""
    d = ctx.sub("t_" + name)
    inp, outp = os.path.join(d, "scen.ndjson"), os.path.join(d, "trace.ndjson")
    with open(inp, "w") as fh:
        for i, s in enumerate(scenarios):
            fh.write(json.dumps(dict(s, alt=i % 4)) + "\n")     # every other scenario builds its policies through the alternative builder spellings
    r = vlib.run_harness(ctx, binary, "tscen", args={"in": inp, "out": outp}, timeout=timeout, env_extra=env_extra)
    recs, summ = vlib.harness_summary(ctx, r, "tscen")
    problems = [x for x in recs if x.get("k") == "problem"]
    ctx.evaluations += summ["events"]
    res = dict(n=summ["n"], events=summ["events"], problems=problems, sample=summ.get("sample"))
    nlines = 0
    # which visible steps of the model the real traces exercised (vacuity check: a label that never occurs was never bound)
    hist = ctx.extra.setdefault("trace_events_seen", {})
    for line in open(outp):
        nlines += 1
        m = re.search(r'"ev": ?"([^"]+)"', line)
        if m:
            hist[m.group(1)] = hist.get(m.group(1), 0) + 1
    if nlines == 0:
        return True, res
    tla = "---- MODULE MC ----\nEXTENDS FailsafeTTrace\n====\n"
    cfgt = "SPECIFICATION TraceSpec\nCONSTANTS\n TraceFile = \"%s\"\nCONSTRAINT %s\nCHECK_DEADLOCK FALSE\n"
    sd = vlib.stage_specs(ctx, "tv_" + name, tla, cfgt % (outp, "Progress"))
    acc = [False]
    propviol = {}

    def cba(line):
        if "TRACE-ACCEPTED" in line:
            acc[0] = True
            return True
        m = re.search(r'<<"PROPVIOL", "(C\d+)", (\d+)>>', line)
        if m:
            propviol[(m.group(1), int(m.group(2)))] = 1
            return True
        return False
    t = vlib.run_tlc(ctx, sd, workers=1, dfs=True, timeout=timeout, allow_fail=True, heap="6g", line_cb=cba)
    tail = "\n".join(t["tail"][-80:])
    res["states"] = t["distinct"]
    res["propviol"] = []
    if propviol:
        lines = [json.loads(x) for x in open(outp)]
        for (prop, ln) in sorted(propviol):
            startl = max(i for i in range(ln) if lines[i]["ev"] == "Config")
            res["propviol"].append(dict(prop=prop, line=ln, config=lines[startl]["cfg"], trace=lines[startl:ln]))
    if acc[0] and t["rc"] == 0:
        ctx.traces += summ["n"] - len(problems)
        return True, res
    if t["rc"] != 0 or "Error" in tail:
        raise vlib.Inconclusive("TLC failed validating %s:\n%s" % (name, tail[-3000:]))
    # rejected: second run that prints the high-water mark of the trace position
    hwm = [0]

    def cb(line):
        m = re.search(r'<<"HWM", (\d+)>>', line)
        if m:
            hwm[0] = max(hwm[0], int(m.group(1)))
            return True
        return False
    sd2 = vlib.stage_specs(ctx, "tv2_" + name, tla, cfgt % (outp, "ProgressPrint"))
    vlib.run_tlc(ctx, sd2, workers=1, dfs=True, timeout=timeout, allow_fail=True, line_cb=cb, heap="6g")
    if hwm[0] == 0:
        raise vlib.Inconclusive("TLC diagnosis run failed for %s" % name)
    # rejected: hwm = index of the first line no interleaving explains
    lines = [json.loads(l) for l in open(outp)]
    bad = hwm[0]
    startl = max(i for i in range(bad) if lines[i]["ev"] == "Config")
    endl = bad
    res.update(rejected_line=bad, trace=lines[startl:endl], config=lines[startl]["cfg"])
    nacc = sum(1 for l in lines[:startl] if l["ev"] == "Config")
    ctx.traces += nacc
    return False, res
