"""Model checking of specs/FailsafeT.tla on its own (specs/FailsafeTMC.tla): every schedule of small timed scenarios."""
import json, vlib


def to_tla(v):
    if isinstance(v, bool):
        return "TRUE" if v else "FALSE"
    if isinstance(v, int):
        return str(v)
    if isinstance(v, str):
        return '"%s"' % v
    if isinstance(v, list):
        return "<<" + ", ".join(to_tla(x) for x in v) + ">>"
    if isinstance(v, dict):
        if not v:
            return "<<>>"
        return "[" + ", ".join("%s |-> %s" % (k, to_tla(x)) for k, x in v.items()) + "]"
    raise TypeError(v)


def model_check(ctx, name, scenarios, invariants, timeout=1500, expect_violation=None, workers=12):
    """Returns TLC result dict. expect_violation: name of an invariant that MUST be violated (negative control)."""
    scs = []
    for s in scenarios:
        c = {k: v for k, v in s.items() if k not in ("unit_ns", "grace", "readers")}
        scs.append(to_tla(c))
    tla = "---- MODULE MC ----\nEXTENDS FailsafeTMC\nMCScenarios == {%s}\n====\n" % ",\n ".join(scs)
    cfg = "SPECIFICATION MCSpec\nCONSTANTS\n Scenarios <- MCScenarios\n TraceFile = \"none\"\nINVARIANTS %s\nCHECK_DEADLOCK FALSE\n" % " ".join(invariants)
    cfg = cfg.replace(' TraceFile = "none"\n', "")
    d = vlib.stage_specs(ctx, "mc_" + name, tla, cfg)
    res = vlib.run_tlc(ctx, d, workers=workers, timeout=timeout, allow_fail=True, heap="12g")
    tail = "\n".join(res["tail"])
    if expect_violation:
        if expect_violation not in res["violated"]:
            raise vlib.Inconclusive("negative control: %s was expected to be violated on the model of the unrepaired design, but was not" % expect_violation)
        return res
    if res["viol"]:
        raise vlib.Inconclusive("specs/FailsafeT.tla violates %s on the model (%s):\n%s" % (res["violated"], name, tail[-2500:]))
    if res["rc"] != 0:
        raise vlib.Inconclusive("TLC failed on FailsafeTMC (%s):\n%s" % (name, tail[-2500:]))
    return res
