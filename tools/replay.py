"""bin/check <Cxx> --replay <path>: re-run the single case stored in a replay file against /repo's working tree."""
import json, os, sys, vlib, tscen, seq, pipeline


def feed(ctx, binary, mode, lines, args=None):
    p = os.path.join(ctx.work, "replay_in.ndjson")
    open(p, "w").write("\n".join(lines) + "\n")
    r = vlib.run_harness(ctx, binary, mode, args=args or {}, stdin_path=p, timeout=600)
    return vlib.parse_harness_output(r.stdout + (r.stderr or ""))


def run(ctx, path):
    rep = json.load(open(path))
    body = rep["replay"]
    binary = vlib.build_harness(ctx)
    bad = []
    if "history" in body and "config" in body and "kind" in body["config"]:          # limiter history
        recs = feed(ctx, binary, "limiter_replay", [json.dumps(body["history"])], dict(cfg=json.dumps(body["config"])))
        bad = [r for r in recs if r.get("k") == "mismatch"]
    elif "history" in body:                                                             # breaker history
        recs = feed(ctx, binary, "breaker_replay", [json.dumps(body["history"])], dict(cfg=json.dumps(body["config"])))
        bad = [r for r in recs if r.get("k") == "mismatch"]
    elif "behaviour" in body and body["behaviour"]:                                     # sequential behaviour
        recs = feed(ctx, binary, "seq_replay", [json.dumps(body["behaviour"])], dict(entries=8))
        bad = [r for r in recs if r.get("k") == "mismatch"]
    elif "row" in body:                                                                 # classification row
        recs = feed(ctx, binary, "classify_rows", [json.dumps(body["row"])])
        bad = [r for r in recs if r.get("k") == "mismatch"]
    elif "config" in body and "trace" in body:                                          # timed scenario: run it again, validate
        tscen.ASYNC_FIX = tscen.async_fix_in_code()
        sc = dict(body["config"])
        sc["asyncFix"] = tscen.ASYNC_FIX
        ok, info = tscen.run_and_validate(ctx, binary, "replay", [sc])
        if not ok or info.get("propviol") or info.get("problems"):
            bad = [dict(rejected_line=info.get("rejected_line"), propviol=[p["prop"] for p in info.get("propviol", [])], problems=info.get("problems"),
                        last=(info.get("trace") or [None])[-1])]
    else:
        print("replay: unsupported replay file (re-run the check instead)")
        return 2
    if bad:
        print("VIOLATION property=%s replay=%s" % (ctx.pid, path))
        print("  reproduced: %s" % json.dumps(bad[0])[:800])
        return 1
    print("replay: not reproduced on the current tree (%s)" % rep.get("signature"))
    return 0
