#!/bin/sh
# usage: tools/try_mutant.sh <patch> <Cxx> [tier]   -- applies patch to /repo, runs the check, reverts
P=$1; ID=$2; TIER=${3:-quick}
git -C /repo apply "$P" || { echo "apply failed"; exit 3; }
( cd /verif && timeout 3000 bin/check $ID --tier $TIER 2>&1 | grep -E "^(VIOLATION|KNOWN|PASS|FAIL|INCONCLUSIVE|  signature|  detail)" | cut -c1-400 | head -${LINES_MAX:-12} )
git -C /repo checkout -- . 
git -C /repo status --short | head -3
