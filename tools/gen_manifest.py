#!/usr/bin/env python3
"""Regenerates MANIFEST.json from the table below (kept in one place so it stays valid)."""
import json, os
V = os.path.dirname(os.path.dirname(os.path.abspath(__file__)))
ALL = ["C%02d" % i for i in range(1, 20)]
CHECKS = {
 "C03": dict(technique="TLA+ spec (specs/Breaker.tla) model-checked by TLC; every TLC-enumerated history replayed on the real breaker (spec->impl conformance) under testing/synctest virtual time",
             text="TLC checks the property-derived invariants (definitional window, opening predicate, delay, trial decision, event path) on the code-shaped breaker machine for every history up to depth D over the API alphabet in 12 configurations, and every such history, with the observation the spec predicts after every step (state, permit result, remaining delay, five metrics, events with their metrics), is replayed on a real CircuitBreaker whose clock is the synctest bubble clock. Exhaustive within the bounds; random longer behaviours from TLC -simulate beyond them.",
             note="Trusted: TLC, Go's testing/synctest fake clock, the JSON projection in harness/breaker_test.go. Bounds: depth 4-5 (quick) / 6-7 (thorough), thresholds <= 4, RecordResult/RecordError classification is covered by C12.",
             ref="4 C03"),
}
PENDING = {}
def main():
    checks = []
    for pid in ALL:
        if pid not in CHECKS: continue
        c = CHECKS[pid]
        checks.append(dict(property_id=pid, quick_cmd="bin/check %s --tier quick" % pid,
                           thorough_cmd="bin/check %s --tier thorough" % pid,
                           evidence_file="evidence/%s.json" % pid, replay_cmd_template="bin/check %s --replay {path}" % pid,
                           engine="tlc+harness", level_claimed=dict(category=c.get("level", "model_checking"), text=c["text"], design_ref="DESIGN.md section " + c["ref"]),
                           level_note=c["note"], technique=c["technique"]))
    na = [dict(property_id=p, reason=PENDING.get(p, "check not built yet in this revision (see DESIGN.md growth plan); nothing is claimed for it")) for p in ALL if p not in CHECKS]
    hooks_commits = []
    hc = os.path.join(V, "hooks_commits.txt")
    if os.path.exists(hc):
        hooks_commits = [l.strip() for l in open(hc) if l.strip()]
    m = dict(version=1,
             setup_cmd="bin/setup",
             hooks=dict(guard="verif (Go build tag)", enable="go1.26 test -c -tags verif (harness module replaces failsafe-go by /repo)",
                        baseline_off_cmd="cd /repo && for m in . ; do go test -vet=off -count=1 -timeout 25m ./... ; done",
                        source_commits=hooks_commits, add_only=True),
             engines=[dict(name="tlc+harness", path="bin/check", serves_properties=[c["property_id"] for c in checks],
                           kind_free_text="python orchestrator (tools/) running TLC on specs/*.tla and the Go harness (harness/, go1.26 testing/synctest) against /repo's working tree; spec->impl replay and impl->spec trace validation")],
             checks=checks, not_applicable=na,
             notes="All checks rebuild the harness from /repo's working tree on every run. Exit 0 pass / 1 VIOLATION / 2 inconclusive.")
    json.dump(m, open(os.path.join(V, "MANIFEST.json"), "w"), indent=1)
if __name__ == "__main__":
    main()
