#!/usr/bin/env python3
"""Regenerates MANIFEST.json from the table below (kept in one place so it stays valid)."""
import json, os
V = os.path.dirname(os.path.dirname(os.path.abspath(__file__)))
ALL = ["C%02d" % i for i in range(1, 20)]
CHECKS = {
 "C03": dict(technique="TLA+ spec (specs/Breaker.tla) model-checked by TLC; every TLC-enumerated history replayed on the real breaker (spec->impl conformance) under testing/synctest virtual time",
             text="TLC checks the property-derived invariants (definitional window, opening predicate, delay, trial decision, event path) on the code-shaped breaker machine for every history up to depth D over the API alphabet in 12 configurations, and every such history, with the observation the spec predicts after every step (state, permit result, remaining delay, five metrics, events with their metrics), is replayed on a real CircuitBreaker whose clock is the synctest bubble clock. Exhaustive within the bounds; random longer behaviours from TLC -simulate beyond them.",
             note="Trusted: TLC, Go's testing/synctest fake clock, the JSON projection in harness/breaker_test.go. Bounds: depth 4-5 (quick) / 6-7 (thorough), thresholds <= 4, RecordResult/RecordError classification is covered by C12.",
             ref="4 C03"),
}
CHECKS["C05"] = dict(technique="TLA+ spec (specs/Limiter.tla): code-shaped limiter operators vs the property's definitional earliest-grant model, refinement model-checked by TLC; every TLC-enumerated history replayed on real limiters (spec->impl conformance, expected waits from the definition) under synctest virtual time",
  text="TLC checks on every history up to depth D that the code-shaped smooth/bursty acquire operators return exactly the wait the definitional model (earliest instant respecting one-per-slot / M-per-period and request order) prescribes, that k-at-once equals k singles, that refusals are no-ops and that the slot/period bound holds on the grant log; every enumerated history (Try/Reserve/TryReserve/blocking Acquire/executions through the policy, ticks on and off boundaries, long idle gaps) is replayed against real limiters and each returned wait / refusal / blocking duration compared with the definition's answer.",
  note="Trusted: TLC, testing/synctest clock (the limiter's stopwatch is time.Since), harness projection. Bounds: 6 configurations, depth 4 (quick) / 6 (thorough) exhaustive + random histories of length 40-100; single caller (concurrent callers: see C14).",
  ref="4 C05")
CHECKS["C12"] = dict(technique="TLA+ spec of the documented rule (specs/Classify.tla); TLC enumerates the complete truth table (specs/ClassifyTable.tla) and checks sanity theorems; one implementation test per row through fallback, retry, breaker, abort and hedge-cancel",
  text="The classification rule is a pure function; the spec is the rule as documented. TLC enumerates every row (all sets of <= 3-4 registrations of 9 x 3 results x all error terms to depth 1-2 built from sentinels, value/pointer-receiver types, %w wrapping, a custom wrapping type and errors.Join) and each row is executed against the real policies in five observation ways. Exhaustive over the stated table.",
  note="Trusted: TLC, the term<->error construction in harness/classify_test.go. AbortOnResult/CancelOnResult against an outcome that also carries an error: both verdicts accepted (statement not explicit).",
  ref="4 C12")

_SEQ_NOTE = "Trusted: TLC, testing/synctest virtual time, the projection in harness/failsafe_test.go (errors -> terms, listener payloads -> snapshots). Sequential configuration only (one execution at a time, at most one hedge per stack, zero or fixed retry delays); timeouts never fire here (C07 covers them). Bounds in evidence.coverage.rule."
_SEQ_TECH = "TLA+ spec of the execution machine (specs/Failsafe.tla, code-shaped small-step semantics of all eight policy executors) model-checked by TLC with property invariants; every TLC-enumerated behaviour (stack x lazily chosen outcome script x history of executions) replayed on the real library (spec->impl conformance)"
CHECKS["C01"] = dict(technique=_SEQ_TECH, text="TLC enumerates every stack of depth <= 2 (quick) / 3 (thorough) over 17 policy descriptors incl. repeated stateful instances, every outcome script and 2 successive executions, checks the admission / completion invariants, and emits per execution the invocation count, returned value and error, success verdict and the public state of every stateful policy; the real executor must reproduce each of them (4 entry points in thorough).", note=_SEQ_NOTE, ref="4 C01")
CHECKS["C02"] = dict(technique=_SEQ_TECH, text="Retry-centred families: 15 retry configurations (maxRetries -1/0/1/2/3, handle/abort sets incl. multi-error registrations, ReturnLastFailure, fixed delay + max duration) alone, nested pairwise and combined with breaker/fallback/bulkhead/limiter; TLC checks C02_Bound / C02_OnlyAfterFailure / C02_Single on every behaviour; invocation counts, returned value (ExceededError with its LastResult/LastError) and retry events are compared on the real library in virtual time; successive executions check that the budget is per execution.", note=_SEQ_NOTE + " Concurrent executions sharing a policy are exercised by C14.", ref="4 C02")
CHECKS["C10"] = dict(technique=_SEQ_TECH, text="Fallback-centred families: 8 fallback configurations (result / error / handled subsets / ErrExceeded / ErrOpen / output on the other side of its own conditions) over and under 11 inner policies producing plain results, handled and unhandled errors, ExceededError, ErrOpen, ErrFull and rate-limit errors; TLC checks C10_Fallback / C10_Outermost; the fallback invocation count, the execution it receives, OnFallbackExecuted, returned value and verdict are compared on the real library.", note=_SEQ_NOTE + " Cancellation of an execution with a fallback is covered by C08.", ref="4 C10")
CHECKS["C11"] = dict(technique=_SEQ_TECH, text="Cache-centred families with an instrumented Cache: configured key / CacheIf on a result / CacheIf on an error / no key, alone, over and under stateful policies, histories of 3 executions whose context carries no key, another key, the empty string or a non-string; TLC checks C11_HitSkipsInner / C11_StoreIff / C11_Outermost; Get/Set calls, cache events, cache contents and the state of the policies inside are compared.", note=_SEQ_NOTE, ref="4 C11")
CHECKS["C16"] = dict(technique=_SEQ_TECH, text="Every listener of every builder is registered (5 registration variants, so listeners that are only reached when another is absent are exercised) and the ordered per-execution log (listener, policy, payload) is compared with the event log the spec builds action by action; TLC checks the C16 identities on the model. Breaker transition paths with specific + generic listeners are also covered by C03.", note=_SEQ_NOTE + " Events under concurrency (timeouts, cancelled waits) are covered by C06/C07/C08/C09.", ref="4 C16")
CHECKS["C17"] = dict(technique=_SEQ_TECH, text="The snapshot user code can read (Attempts, Executions, Retries, Hedges, IsFirstAttempt/IsRetry/IsHedge, LastResult, LastError) inside the function, in every listener and in the fallback is compared with the spec's snapshot at that event, for all stacks of depth <= 2/3 over 14 descriptors incl. hedges and rejected attempts; TLC checks the counter identities on the model.", note=_SEQ_NOTE + " Overlapping hedge attempts are covered by C09.", ref="4 C17")
PENDING = {}
def main():
    checks = []
    for pid in ALL:
        if pid not in CHECKS: continue
        c = CHECKS[pid]
        checks.append(dict(property_id=pid, quick_cmd="bin/check %s --tier quick" % pid,
                           thorough_cmd="bin/check %s --tier thorough" % pid,
                           evidence_file="evidence/%s.json" % pid, replay_cmd_template="bin/check %s --replay {path}" % pid,
                           engine="tlc+harness", level_claimed=dict(category=c.get("level", "model_checking"), text=c["text"], design_ref="DESIGN.md section " + c["ref"]),
                           level_note=c["note"], technique=c["technique"]))
    na = [dict(property_id=p, reason=PENDING.get(p, "check not built yet in this revision (see DESIGN.md growth plan); nothing is claimed for it")) for p in ALL if p not in CHECKS]
    hooks_commits = []
    hc = os.path.join(V, "hooks_commits.txt")
    if os.path.exists(hc):
        hooks_commits = [l.strip() for l in open(hc) if l.strip()]
    m = dict(version=1,
             setup_cmd="bin/setup",
             hooks=dict(guard="verif (Go build tag)", enable="go1.26 test -c -tags verif (harness module replaces failsafe-go by /repo)",
                        baseline_off_cmd="cd /repo && for m in . ; do go test -vet=off -count=1 -timeout 25m ./... ; done",
                        source_commits=hooks_commits, add_only=True),
             engines=[dict(name="tlc+harness", path="bin/check", serves_properties=[c["property_id"] for c in checks],
                           kind_free_text="python orchestrator (tools/) running TLC on specs/*.tla and the Go harness (harness/, go1.26 testing/synctest) against /repo's working tree; spec->impl replay and impl->spec trace validation")],
             checks=checks, not_applicable=na,
             notes="All checks rebuild the harness from /repo's working tree on every run. Exit 0 pass / 1 VIOLATION / 2 inconclusive.")
    json.dump(m, open(os.path.join(V, "MANIFEST.json"), "w"), indent=1)
if __name__ == "__main__":
    main()
