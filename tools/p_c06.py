"""C06 - bulkhead. Spec: bulkhead layer of specs/FailsafeT.tla (semaphore occupancy, two-phase acquire as select
alternatives, wait timer, cancellation) under several concurrent executions and the standalone API. Binding: direction B -
scenarios with more executions than permits, waits, cancellations, timeouts, hedges; traces validated by TLC; the
concurrency bound is evaluated on every prefix of the real trace and permit conservation at quiescence (probe)."""
import itertools, vlib, tscen, p_c07
from tscen import *


ALWAYS = []      # scenarios every tier runs (not sampled)


def scenarios(quick):
    out = []
    del ALWAYS[:]
    stacks = [lambda m, w: [bh("b", m, wait=w)], lambda m, w: [retry(1, dly=1), bh("b", m, wait=w)], lambda m, w: [to(3), bh("b", m, wait=w)],
              lambda m, w: [bh("b", m, wait=w), to(3)], lambda m, w: [fb(), bh("b", m, wait=w)], lambda m, w: [hg(1, 2), bh("b", m, wait=w)],
              # a policy between the bulkhead and the function that reports a cancellation (outer timeout / async Cancel): the permit still comes back
              lambda m, w: [to(3), bh("b", m, wait=w), retry(1, dly=1)], lambda m, w: [bh("b", m, wait=w), retry(1, dly=1)], lambda m, w: [bh("b", m, wait=w), hg(1, 2)]]
    for mk in stacks:
        for m in (1, 2):
            for w in (0, 3):
                st = mk(m, w)
                for starts in ((0, 0, 0), (0, 1, 2), (0, 0, 3)):
                    for ds in ((2, 2, 2), (4, 1, 1), (1, 4, 2), (3, 3, 1)):
                        for oc in (("R1", None), ("R0", "E1")):
                            fns = [[fn(d, oc[0], oc[1], True)] * 4 for d in ds]
                            base = [start(i + 1, at, asyn=(i == 2)) for i, at in enumerate(starts)]
                            if ds == (3, 3, 1):
                                # a permit that comes back on the very instant a waiter's max wait runs out (many steps on one
                                # instant make the validation search expensive: the bulkhead alone, no further variants)
                                if len(st) == 1 and w == 3:
                                    ALWAYS.append(scenario(st, fns, base))
                                continue
                            out.append(scenario(st, fns, base))
                            for ct in ((1, 3) if quick else (0, 1, 2, 3, 4)):
                                if ct >= starts[1]:          # (only an execution that has been started can be cancelled)
                                    out.append(scenario(st, fns, base + [env("CtxCancel", ct, 2)]))
                            if w > 0 and len(st) <= 2:
                                # the caller's deadline falls inside the wait for a permit, or on the instant the wait ends
                                # (two-layer stacks: a third layer multiplies the steps on that instant and the validation search)
                                for x in ((2,) if quick else (2, 3)):
                                    out.append(scenario(st, fns, base + [env("CtxDeadline", starts[x - 1] + 1, x)]))
                                    out.append(scenario(st, fns, base + [env("CtxDeadline", starts[x - 1] + w, x)]))
                            for ct in ((2,) if quick else (1, 2, 3)):
                                if len(st) == 2 and st[0]["k"] == "bh" or len(st) == 3:
                                    out.append(scenario(st, fns, base + [env("AsyncCancel", starts[2] + ct, 3)]))
                            out.append(scenario(st, fns, [env("BhTake", 0, id="b")] + base + [env("BhRelease", 2, id="b")]))
                            # a standalone AcquirePermit(ctx) waiting behind the executions, cancelled or served
                            out.append(scenario(st, fns, base + [env("BhAcquire", 1, x=7, id="b"), env("BhAcqCancel", 2, x=7), env("BhRelease", 9, id="b")] if False else
                                                base + [env("BhAcquire", 1, x=7, id="b"), env("BhAcqCancel", 2, x=7)]))
    # a NEGATIVE max wait time (a remaining budget that went below zero): a full bulkhead refuses at once, a free one admits
    for m in (1, 2):
        fns = [[fn(2, "R1", None, True)] * 3] * 3
        ALWAYS.append(scenario([bh("b", m, wait=-1)], fns, [start(1, 0), start(2, 0), start(3, 1, asyn=True)]))
        ALWAYS.append(scenario([retry(1, dly=1), bh("b", m, wait=-1)], fns, [env("BhTake", 0, id="b")] * m + [start(1, 0), start(2, 1), env("BhRelease", 2, id="b")]))
    # standalone AcquirePermit(ctx): the permit comes back on the very instant the waiter's context is cancelled (both orders):
    # what the call reports must be what happened to the permit (probed at quiescence and by an execution started afterwards)
    for order in (("BhRelease", "BhAcqCancel"), ("BhAcqCancel", "BhRelease")):
        for at in (1, 3):
            evs = [env("BhTake", 0, id="b"), env("BhAcquire", 1, x=7, id="b")]
            evs += [env(w, at, x=7) if w == "BhAcqCancel" else env(w, at, id="b") for w in order]
            ALWAYS.append(scenario([bh("b", 1)], [[fn(1, "R1", None, True)] * 2], evs + [start(1, 5)]))
    for st in ([bh("b", 1), bh("b", 1)], [bh("b", 2), bh("c", 1)], [bh("b", 2, wait=2), retry(1, dly=1), bh("c", 1)]):
        for starts in ((0, 0), (0, 1)):
            fns = [[fn(2, "R1", None, True)] * 3] * 2
            sc = scenario(st, fns, [start(i + 1, at) for i, at in enumerate(starts)])
            sc["bhmax"] = {d["id"]: d["max"] for d in st if d["k"] == "bh"}
            out.append(sc)
    return out


def model_scenarios():
    out = []
    for w in (0, 2):
        for starts in ((0, 1),):
            fns = [[fn(2, "R1", None, True)], [fn(1, "R1", None, True)]]
            base = [start(1, starts[0]), start(2, starts[1])]
            out.append(scenario([bh("b", 1, wait=w)], fns, base))
            out.append(scenario([bh("b", 1, wait=w)], fns, base + [env("CtxCancel", 1, 2)]))
            out.append(scenario([to(1), bh("b", 1, wait=w)], fns, base))
    out.append(scenario([bh("b", 1, wait=2)], [[fn(2, "R1", None, True)]], [env("BhTake", 0, id="b"), start(1), env("BhRelease", 1, id="b")]))
    return out


def run(ctx):
    import tmc
    tscen.ASYNC_FIX = tscen.async_fix_in_code()
    tmc.model_check(ctx, "bh", model_scenarios(), ["MC_NoStuckThread", "MC_AllReturn", "MC_C06", "MC_Conservation"])
    scs = scenarios(ctx.tier == "quick")
    if ctx.tier == "quick":      # several concurrent executions make validation expensive: every 9th scenario, offset by the seed
        scs = scs[ctx.seed % 9::9] + scs[-6:] + ALWAYS
    else:                        # thorough: every third scenario of the full grid (about 2.6 k traces of three executions each)
        scs = scs[ctx.seed % 3::3] + scs[-6:] + ALWAYS
    p_c07.run_family(ctx, "bh", scs, props=("C06",))
    # permits taken through the standalone API before the run, successive executions, every nesting of depth <= 2 around the bulkhead
    import seq
    binary = vlib.build_harness(ctx)
    st = [s for s in seq.all_stacks(["bh2p", "bh1", "bh0", "rp1", "fbR", "to", "cbA"], 2 if ctx.tier == "quick" else 3) if any(x.startswith("bh") for x in s)]
    mm = seq.run_family(ctx, binary, "bhseq", st, outs=seq.OUTS3, maxcalls=3, execs=2)
    seq.report(ctx, mm, lambda m: m["tag"] in ("calls", "ret", "probe") or m.get("kind") == "bh")
    return vlib.finish(ctx, rule="6 placements of a bulkhead (alone, under retry, under/over timeout, under fallback, under hedge) x maxConcurrency 1-2 x max wait 0/3 x 3 executions (sync and async) with "
                       "staggered starts and durations x outcome x context cancellation of a waiting or running execution at several instants x standalone TryAcquirePermit/ReleasePermit; traces validated by TLC, "
                       "in-flight bound on every prefix, permits probed at quiescence")
