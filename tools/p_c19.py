"""C19 - finished executions leave no goroutines or connections behind. Spec: every goroutine the library starts is a
thread of specs/FailsafeT.tla (async runner, hedge attempts, timeout timers) or of specs/HttpAdapter.tla (context mergers);
a scenario's Quiesce line carries the number of library goroutines still alive in the bubble (stack dump filtered to
failsafe-go frames) and is accepted only if it is zero exactly when every thread of the model has ended. The synctest
bubble's exit check catches anything durably blocked. HTTP part: see p_c18 (shared scenarios; responses closed, mergers)."""
import vlib, tscen, p_c07, p_c08, p_c09, p_c15
from tscen import *


def scenarios(quick):
    out = []
    # outcomes the property lists: success, failure, rejection, timeout, cancellation - around goroutine-starting policies
    for ds in ((1, 4), (4, 1), (3, 3), (6, 6), (0, 9)):
        for coop in (True, False):
            fns = [[fn(ds[0], "R0", "E1", coop), fn(ds[1], "R1", None, coop), fn(1, "R1"), fn(1, "R1")]]
            for st in ([hg(2, 2)], [to(3), hg(1, 2)], [hg(1, 2), to(3)], [retry(1, dly=1), hg(1, 2), to(2)], [to(5), retry(1, dly=3)], [fb(), to(2), hg(2, 1)],
                       [hg(1, 2, c=[cR("R1")]), retry(1, dly=1)], [to(2), bh("b", 1, wait=5)]):
                for asyn in (False, True):
                    out.append(scenario(st, fns, [start(1, 0, asyn)]))
                    for ct in (1, 2, 3, 5):
                        out.append(scenario(st, fns, [start(1, 0, asyn), env("CtxCancel", ct, 1)]))
                    if asyn:
                        out.append(scenario(st, fns, [start(1, 0, True), env("AsyncCancel", 2, 1)]))
    # executions that start with an already cancelled context (timers armed for nothing must be released)
    for st in ([to(3)], [retry(1, dly=1), to(2)], [hg(1, 2), to(2)], [to(2), bh("b", 1, wait=3)], [fb(), to(2), retry(1, dly=1)]):
        for coop in (True, False):
            s0 = start(1, 0, False); s0["id"] = "precanceled"
            s1 = start(1, 0, True); s1["id"] = "precanceled"
            out.append(scenario(st, [[fn(1, "R1", None, coop)] * 3], [s0]))
            out.append(scenario(st, [[fn(1, "R1", None, coop)] * 3], [s1]))
    return out


def run(ctx):
    quick = ctx.tier == "quick"
    scs = scenarios(quick)
    if quick:
        scs = scs[ctx.seed % 2::2] + scs[-20:]
    p_c07.run_family(ctx, "lk", scs)
    import p_c18
    p_c18.run_http(ctx, only=p_c18.LEAK_CLAUSES | {"attemptCancelled"})
    return vlib.finish(ctx, rule="goroutine-starting compositions (hedge, timeout, async, retry delays, bulkhead waits) x success / failure / rejection / timeout / context cancellation at several instants / async cancel, "
                       "functions that cooperate or keep running; after the last callback returned and a grace period the bubble's goroutines with a failsafe-go frame are counted and must match the model's live threads; "
                       "HTTP/gRPC: context mergers and response bodies (see C18)")
