"""TLC -> harness streaming: behaviours printed by TLC (PrintT(ToJson(hist))) are piped into a harness mode."""
import threading, vlib


def tlc_to_harness(ctx, d, binary, mode, args, tlc_kwargs, prefix='"['):
    """Runs TLC in d and streams every line starting with prefix to the harness' stdin.
    Returns (tlc_result, harness_records, summary)."""
    hp = vlib.run_harness(ctx, binary, mode, args=args, stdin_pipe=True)
    out_lines = []

    def reader():
        for line in hp.stdout:
            out_lines.append(line)
    th = threading.Thread(target=reader)
    th.start()
    sent = [0]

    def cb(line):
        if line.startswith(prefix):
            try:
                hp.stdin.write(line)
                hp.stdin.write("\n")
            except BrokenPipeError:
                pass
            sent[0] += 1
            return True
        return False
    try:
        res = vlib.run_tlc(ctx, d, line_cb=cb, **tlc_kwargs)
    finally:
        try:
            hp.stdin.close()
        except Exception:
            pass
        th.join(timeout=1200)
        hp.wait(timeout=60)
    recs = vlib.parse_harness_output("".join(out_lines))
    summ = [x for x in recs if x.get("k") == "summary"]
    if not summ:
        raise vlib.Inconclusive("harness mode %s gave no summary (rc=%s): %s" % (mode, hp.returncode, "".join(out_lines)[-2000:]))
    errs = [x for x in recs if x.get("k") == "error"]
    if errs:
        raise vlib.Inconclusive("harness errors: %s" % errs[:3])
    if summ[-1].get("n", 0) != sent[0]:
        junk = [l for l in out_lines if not l.startswith("VH ")]
        raise vlib.Inconclusive("harness consumed %s of %d behaviours; output: %s" % (summ[-1].get("n"), sent[0], "".join(junk)[-3000:]))
    return res, recs, summ[-1]
