"""C14 - shared policies and executors are safe for concurrent use. The specification (specs/FailsafeT.tla) says which
accesses are atomic / mutex-protected steps and explores their interleavings; whether the CODE honours that (no data race)
is decided by the Go race detector: the timed scenarios of the concurrent families (hedge x timeout x retry x bulkhead x
breaker x cancellation x async readers) and a free-running stress on shared instances are run with -race; deadlocks and
panics surface as bubble deadlocks / panics; per-execution correctness under concurrency is what C04/C06 validate."""
import glob, json, os, re, vlib, tscen, p_c07, p_c08, p_c09, p_c06, p_c04, p_c15
from tscen import *


def race_sigs(logdir):
    sigs = {}
    for f in glob.glob(os.path.join(logdir, "race.*")):
        txt = open(f, errors="replace").read()
        for block in txt.split("WARNING: DATA RACE")[1:]:
            block = block.split("==================")[0]
            parts = re.split(r"\n(?:Previous (?:write|read)[^\n]*|Goroutine \d+ \([^\n]*)\n", block)
            tops = []
            for part in parts[:2]:
                m = re.findall(r"\n\s+(github\.com/failsafe-go/failsafe-go\S*)\(\)", "\n" + part)
                def simp(x):
                    x = x.replace("github.com/failsafe-go/failsafe-go", "")
                    x = re.sub(r"\[[^\]]*\]", "", x)          # generic instantiations
                    x = re.sub(r"\.func\d+(\.\d+)*|\.gowrap\d+", "", x)
                    x = x.split(".(*executor).Apply.(*executor)")[0] + (".Apply" if ".Apply" in x else "") if "executor).Apply" in x else x
                    return x.lstrip("/.")
                m = [simp(x) for x in m]
                tops.append(m[0] if m else "?")
            via = ":via-hedge-attempts" if block.count("hedgepolicy.(*executor") >= 2 else ""
            if tops == ["?", "?"]:
                sig = "race:harness-only"      # no library frame on top of either stack: a race of the harness itself
            else:
                sig = "race:" + "|".join(sorted(tops)) + via
            sigs.setdefault(sig, block.strip()[:3000])
    return sigs


def extra_scenarios():
    out = []
    # hedge over retry (attempt goroutines share the inner retry executor), hedge over timeout (several attempts time out)
    for ds in ((1, 1, 1), (3, 3, 3), (1, 4, 2)):
        fns = [[fn(d, "R0", "E1", True) for d in ds] * 3] * 2
        out.append(scenario([hg(2, 1), retry(2, dly=1)], fns, [start(1), start(2, 0, True)]))
        out.append(scenario([hg(2, 1), to(2)], fns, [start(1)]))
        out.append(scenario([retry(1, dly=1), hg(1, 1), to(2)], fns, [start(1, 0, True), env("AsyncCancel", 2, 1)]))
        out.append(scenario([fb(), hg(2, 1), retry(1), cb("c")], fns, [start(1), start(2)]))
    # a rate limiter parked waiting for a permit while a Timeout fires / the result is cancelled
    for t in (1, 2, 3):
        fns = [[fn(1, "R1", None, True)] * 2, [fn(1, "R1", None, True)] * 2]
        out.append(scenario([to(2), rl("r", 4, wait=9)], fns, [start(1), start(2, 0, True)]))
        out.append(scenario([rl("r", 4, wait=9), retry(1, dly=1)], fns, [start(1), start(2, 0, True), env("AsyncCancel", t, 2)]))
    return out


def run(ctx):
    binary = vlib.build_harness(ctx, race=True)
    quick = ctx.tier == "quick"
    tscen.ASYNC_FIX = tscen.async_fix_in_code()
    scs = extra_scenarios()
    step = 16 if quick else 2
    for mod in (p_c07, p_c08, p_c09, p_c06, p_c04, p_c15):
        s = mod.scenarios(True)
        scs += s[ctx.seed % step::step]
    for s in scs:
        s["asyncFix"] = tscen.ASYNC_FIX
    logdir = ctx.sub("racelogs")
    env = {"GORACE": "log_path=%s/race halt_on_error=0" % logdir}
    # run under -race AND validate the traces of the scenarios the detector did not abort (per-execution behaviour under concurrency)
    aborted = 0
    for i in range(0, len(scs), 300):
        ok, info = tscen.run_and_validate(ctx, binary, "race%d" % i, scs[i:i + 300], env_extra=env)
        for p in info["problems"]:
            if "scenario aborted" in p["what"]:
                aborted += 1        # the race detector failed the subtest; the race itself is reported below
                continue
            vlib.add_violation(ctx, "conc:problem:" + p["what"][:80], p["what"], dict(scenario=p.get("raw")))
        if not ok:
            vlib.add_violation(ctx, p_c07.violation_sig(info), "no interleaving of specs/FailsafeT.tla explains line %d: %s" % (info["rejected_line"], json.dumps(info["trace"][-1])[:400]),
                               dict(config=info["config"], trace=info["trace"]))
    ctx.nontrivial += len(scs)
    r2 = vlib.run_harness(ctx, binary, "race_stress", args=dict(n=6 if quick else 60), timeout=3000, env_extra=env)
    recs2, summ2 = vlib.harness_summary(ctx, r2, "race_stress")
    ctx.evaluations += summ2["n"]
    for p in [x for x in recs2 if x.get("k") == "problem"]:
        vlib.add_violation(ctx, "conc:problem:" + p["what"][:80], p["what"], dict(round=p.get("round")))
    sigs = race_sigs(logdir)
    if aborted and not sigs:
        raise vlib.Inconclusive("%d scenarios aborted without a race report" % aborted)
    for sig, block in sigs.items():
        vlib.add_violation(ctx, sig, "Go race detector report:\n" + block[:1200], dict(report=block))
    ctx.samples.append(dict(scenarios=len(scs), stress_executions=summ2["n"], race_reports=sorted(sigs)))
    ctx.extra["explanation"] = "race detector over %d timed scenarios + %d free-running executions on shared instances" % (len(scs), summ2["n"])
    return vlib.finish(ctx, level="model_checking", rule="timed scenarios sampled from the concurrent families (C04 C06 C07 C08 C09 C15) + hedge-over-retry / hedge-over-timeout / async-cancel compositions, and "
                       "free-running stress (12 goroutines x 6 executions x rounds over 11 stacks of shared instances incl. jittered retry policies, standalone API calls), all under -race; "
                       "non-trivial = scenario with at least two library goroutines")
