#!/bin/sh
# runs every registered check (tier $1, default quick) on /repo's working tree, one line per check
cd "$(dirname "$0")/.."
T=${1:-quick}
for p in C01 C02 C03 C04 C05 C06 C07 C08 C09 C10 C11 C12 C13 C14 C15 C16 C17 C18 C19; do
  bin/check $p --tier $T > .work_$p.out 2>&1; rc=$?
  echo "$p rc=$rc $(grep -E '^(PASS|FAIL|INCONCLUSIVE)' .work_$p.out | cut -c1-140)"
  grep -E '^(VIOLATION|  signature)' .work_$p.out | head -4 | cut -c1-200
  rm -f .work_$p.out
done
