"""C08 - cancellation stops the execution promptly and is reported as its cause. Spec: execution/cancellation core of
specs/FailsafeT.tla (context tree, shared cancellation result, the four mutex-protected operations, retry/hedge/fallback/
bulkhead checks and interruptible waits, ExecutionResult.Cancel as two steps). Binding: direction B - scenarios inject one
cancellation source at every instant of a timed execution (sync and async; the async Cancel optionally held between its
two halves through the verif hook); traces validated by TLC, and the C08 predicates (attribution, at most one more
attempt, promptness, no fallback) evaluated on the real trace."""
import vlib, tscen, p_c07
from tscen import *


def scenarios(quick):
    out = []
    stacks = [
        ([retry(3, dly=3)], []),
        ([fb(), retry(3, dly=3)], []),
        ([retry(2, dly=2), bh("b", 1, wait=4)], [env("BhTake", 0, id="b"), env("BhRelease", 5, id="b")]),
        ([hg(2, 2)], []),
        ([retry(2, dly=2), cb("c")], []),
        ([fb(), hg(1, 2), retry(1, dly=1)], []),
        ([retry(2, dly=2, rlf=True), fb(h=[cE("E2")])], []),
        ([rl("r", 4, wait=9), retry(1, dly=1)], []),            # the limiter's wait is outside the retry policy
        ([retry(2, dly=1), rl("r", 3, wait=9)], []),
        ([cb("c"), rl("r", 4, wait=9), retry(1, dly=1)], []),
        ([bh("b", 1, wait=4), retry(1, dly=1)], [env("BhTake", 0, id="b"), env("BhRelease", 5, id="b")]),     # waiting for a permit as the outermost policy
        ([to(20), retry(2, dly=2)], []),                                                                       # a cancellable copy between the result and the retry policy
        ([retry(2, dly=9), hg(1, 1), fb(fr="R0", fe="EFB")], []),                                                # a cancelled hedge loser checks its own copy; the cause is still the caller's
        ([retry(0)], []),                                                                                      # policies that allow a single attempt
        ([fb(), retry(0, dly=1)], []),
    ]
    T = 8 if quick else 12
    for st, extra in stacks:
        for coop in (True, False):
            fns = [[fn(2, "R0", "E1", coop)] * 6, [fn(1, "R1", None, True)] * 2]
            if any(d["k"] == "rl" for d in st):
                # another execution takes the first slot, so that execution 1 has to wait for its permit
                extra = [start(2, 0)]
            for t in range(0, T):
                for asyn in (False, True):
                    out.append(scenario(st, fns, extra + [start(1, 0, asyn), env("CtxCancel", t, 1)]))
                for gap in (0, 1, 2):
                    out.append(scenario(st, fns, extra + [start(1, 0, True), env("AsyncCancel", t, 1, gap=gap)]))
                if t == 0 and any(d["k"] == "bh" for d in st):
                    out.append(scenario(st, fns, extra + [dict(start(1, 0, False), id="precanceled")]))
                    out.append(scenario([bh("b", 1), retry(1, dly=1)], fns, [env("BhTake", 0, id="b"), dict(start(1, 0, True), id="precanceled")]))
                    out.append(scenario([bh("b", 1), retry(1, dly=1)], fns, [env("BhTake", 0, id="b"), start(1, 0, False, dl=0)]))
                # the caller's context reaches its deadline (a timer of the runtime; reported as context.DeadlineExceeded)
                if t >= 1 and (t % 2 == 1 or not quick):
                    out.append(scenario(st, fns, extra + [start(1, 0, t % 4 == 3), env("CtxDeadline", t, 1)]))
    return out


def model_scenarios(async_fix):
    out = []
    fns = [[fn(1, "R0", "E1", True)] * 3]
    for st in ([retry(1, dly=2)], [fb(), retry(1, dly=2)]):
        for t in (0, 1, 2, 3):
            out.append(scenario(st, fns, [start(1, 0, False), env("CtxCancel", t, 1)], async_fix=async_fix))
            for gap in (0, 1, 2):
                out.append(scenario(st, fns, [start(1, 0, True), env("AsyncCancel", t, 1, gap=gap)], async_fix=async_fix))
    return out


def run(ctx):
    import tmc
    tscen.ASYNC_FIX = tscen.async_fix_in_code()
    # TLC on the model alone: every schedule; the C08 predicates in every quiescent state. Negative control: with the
    # two-step async Cancel of the unrepaired design the attribution predicate MUST fail on the model.
    tmc.model_check(ctx, "cx", model_scenarios(True), ["MC_NoStuckThread", "MC_AllReturn", "MC_C08"])
    tmc.model_check(ctx, "cx_neg", model_scenarios(False), ["MC_C08"], expect_violation="MC_C08")
    scs = scenarios(ctx.tier == "quick")
    p_c07.run_family(ctx, "cx", scs, props=("C08",))
    return vlib.finish(ctx, rule="7 compositions with a retry or hedge policy (with fallback, bulkhead wait, breaker) x cooperating/non-cooperating function x one cancellation source "
                       "(context cancel, sync and async; ExecutionResult.Cancel with the canceller held 0/1/2 units between its two halves) fired at every unit instant of the execution; "
                       "each run on the real library in virtual time, trace validated by TLC and the C08 predicates evaluated on it")
