"""C12 - failure classification. Spec: specs/Classify.tla (the documented rule) + specs/ClassifyTable.tla (complete
table). TLC enumerates every row and checks the sanity theorems; every row becomes implementation tests through
fallback, retry, breaker (execution, RecordResult, RecordError), abort conditions and hedge cancel conditions."""
import json, vlib, pipeline
from concurrent.futures import ThreadPoolExecutor

INVS = "DefaultRule NoErrNoMatch Monotone ResultOnlyWithoutError AbortNeverWithoutRegs Emit"


def one(ctx, binary, depth, maxregs, part, parts, tag=""):
    tla = "---- MODULE MC ----\nEXTENDS ClassifyTable\n====\n"
    c = ("SPECIFICATION Spec\nCONSTANTS\n TermDepth = %d\n MaxRegs = %d\n Part = %d\n Parts = %d\nINVARIANTS %s\nCHECK_DEADLOCK FALSE\n"
         % (depth, maxregs, part, parts, INVS))
    d = vlib.stage_specs(ctx, "cl%s_%d" % (tag, part), tla, c)
    # odd parts register error types through the alternative spelling of the target (&T{} for T{} and vice versa)
    res, recs, summ = pipeline.tlc_to_harness(ctx, d, binary, "classify_rows", dict(alt=part % 2), dict(timeout=2400, workers=4), prefix='"{')
    if res["viol"]:
        raise vlib.Inconclusive("sanity theorem fails on the rule itself:\n" + "\n".join(res["tail"][-40:]))
    ctx.traces += summ["n"]
    ctx.nontrivial += summ["nontrivial"]
    if summ.get("sample") and len(ctx.samples) < 3:
        ctx.samples.append(summ["sample"])
    for r in recs:
        if r.get("k") == "mismatch":
            vlib.add_violation(ctx, "classify:" + r["sig"], r["what"] + " for outcome (%s, %s) with conditions %s" % (
                r["row"]["r"], r["err"], json.dumps(r["row"]["conds"])), dict(row=r["row"], what=r["what"]))
        if r.get("k") == "error":
            raise vlib.Inconclusive("harness error: %s" % r)


def run(ctx):
    binary = vlib.build_harness(ctx)
    depth, maxregs, parts = (1, 3, 4) if ctx.tier == "quick" else (2, 4, 8)
    with ThreadPoolExecutor(max_workers=4) as ex:
        futs = [ex.submit(one, ctx, binary, depth, maxregs, p, parts) for p in range(parts)]
        if ctx.tier == "quick":   # deeper terms (wrapped joins, joined wrappers) against single registrations
            futs += [ex.submit(one, ctx, binary, 2, 1, p, 2, "d2") for p in range(2)]
        for f in futs:
            f.result()
    # a breaker classifies the outcome the function produced, also when that outcome arrives after the execution was cancelled
    # (Timeout fired, caller's context cancelled): threaded model, the breaker's counters are probed at quiescence and by a
    # second execution
    import p_c07, tscen
    from tscen import scenario, fn, start, env, to, retry, fb, cb, cE, cR
    B2 = dict(tscen.BR1, fthr=2, fcap=2)
    scs = []
    for mk in (lambda h: [to(2), cb("c", h=h)], lambda h: [cb("c", h=h)], lambda h: [fb(), to(2), cb("c", B2, h=h)], lambda h: [to(2), retry(1), cb("c", B2, h=h)]):
        for h in ([], [cE("E1")], [cR("R2")]):
            st = mk(h)
            for oc in (("R0", "E1"), ("R1", None), ("R0", "E2"), ("R2", None)):
                for coop in (False, True):
                    fns = [[fn(3, oc[0], oc[1], coop)] * 3, [fn(1, "R1")] * 2]
                    evs = [start(1), start(2, 6)]
                    scs.append(scenario(st, fns, evs if st[0]["k"] != "cb" else evs + [env("CtxCancel", 1, 1)]))
    p_c07.run_family(ctx, "c12t", scs)
    return vlib.finish(ctx, rule="complete table: every (set of <= MaxRegs registrations out of 9) x (3 results) x (nil + every error term up to TermDepth over "
                       "{E1,E2,E3,TV,TP} with W, WT, J); each row observed through fallback, retry, breaker (3 ways), abort and hedge-cancel; "
                       "non-trivial = row has at least one registration and an error", exhaustive=True)
