"""C12 - failure classification. Spec: specs/Classify.tla (the documented rule) + specs/ClassifyTable.tla (complete
table). TLC enumerates every row and checks the sanity theorems; every row becomes implementation tests through
fallback, retry, breaker (execution, RecordResult, RecordError), abort conditions and hedge cancel conditions."""
import json, vlib, pipeline
from concurrent.futures import ThreadPoolExecutor

INVS = "DefaultRule NoErrNoMatch Monotone ResultOnlyWithoutError AbortNeverWithoutRegs Emit"


def one(ctx, binary, depth, maxregs, part, parts, tag=""):
    tla = "---- MODULE MC ----\nEXTENDS ClassifyTable\n====\n"
    c = ("SPECIFICATION Spec\nCONSTANTS\n TermDepth = %d\n MaxRegs = %d\n Part = %d\n Parts = %d\nINVARIANTS %s\nCHECK_DEADLOCK FALSE\n"
         % (depth, maxregs, part, parts, INVS))
    d = vlib.stage_specs(ctx, "cl%s_%d" % (tag, part), tla, c)
    # odd parts register error types through the alternative spelling of the target (&T{} for T{} and vice versa)
    res, recs, summ = pipeline.tlc_to_harness(ctx, d, binary, "classify_rows", dict(alt=part % 2), dict(timeout=2400, workers=4), prefix='"{')
    if res["viol"]:
        raise vlib.Inconclusive("sanity theorem fails on the rule itself:\n" + "\n".join(res["tail"][-40:]))
    ctx.traces += summ["n"]
    ctx.nontrivial += summ["nontrivial"]
    if summ.get("sample") and len(ctx.samples) < 3:
        ctx.samples.append(summ["sample"])
    for r in recs:
        if r.get("k") == "mismatch":
            vlib.add_violation(ctx, "classify:" + r["sig"], r["what"] + " for outcome (%s, %s) with conditions %s" % (
                r["row"]["r"], r["err"], json.dumps(r["row"]["conds"])), dict(row=r["row"], what=r["what"]))
        if r.get("k") == "error":
            raise vlib.Inconclusive("harness error: %s" % r)


def run(ctx):
    binary = vlib.build_harness(ctx)
    depth, maxregs, parts = (1, 3, 4) if ctx.tier == "quick" else (2, 4, 8)
    with ThreadPoolExecutor(max_workers=4) as ex:
        futs = [ex.submit(one, ctx, binary, depth, maxregs, p, parts) for p in range(parts)]
        if ctx.tier == "quick":   # deeper terms (wrapped joins, joined wrappers) against single registrations
            futs += [ex.submit(one, ctx, binary, 2, 1, p, 2, "d2") for p in range(2)]
        for f in futs:
            f.result()
    return vlib.finish(ctx, rule="complete table: every (set of <= MaxRegs registrations out of 9) x (3 results) x (nil + every error term up to TermDepth over "
                       "{E1,E2,E3,TV,TP} with W, WT, J); each row observed through fallback, retry, breaker (3 ways), abort and hedge-cancel; "
                       "non-trivial = row has at least one registration and an error", exhaustive=True)
