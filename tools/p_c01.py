"""C01 - policies compose as nested wrappers. Spec: specs/Failsafe.tla (code-shaped small-step machine) checked by TLC
for every stack of the family, every lazily chosen outcome script and history of executions; each behaviour replayed on
the real library (invocation count, returned value/error, verdict, public state of the stateful policies)."""
import vlib, seq

TAGS = {"calls", "ret", "verdict", "probe"}

BASE = ["rp", "rp0", "rpH", "rpA", "rpL", "cbA", "cbX", "rl2", "bh1", "fbR", "fbE", "fbX", "cK", "cIf", "to", "hg", "hgR"]


def run(ctx):
    binary = vlib.build_harness(ctx)
    quick = ctx.tier == "quick"
    jobs = []
    if quick:
        st = seq.all_stacks(BASE, 2)
        half = len(st) // 2
        jobs.append(dict(ctx=ctx, binary=binary, name="d2a", stacks=st[:half], maxcalls=3, execs=2, outs=seq.OUTS3, workers=8))
        jobs.append(dict(ctx=ctx, binary=binary, name="d2b", stacks=st[half:], maxcalls=3, execs=2, outs=seq.OUTS3, workers=8))
    else:
        st = seq.all_stacks(BASE, 3)
        parts = 8
        for i in range(parts):
            jobs.append(dict(ctx=ctx, binary=binary, name="d3_%d" % i, stacks=st[i::parts], maxcalls=4, execs=2, outs=seq.OUTS3, workers=8, entries=2))
    # a rate limiter with short periods under retries that wait: refusals and admissions across period boundaries
    rlt = [["rpW", "rlP"], ["rlP", "rpW"], ["rpW", "rlP", "rlP"], ["rpW", "fbH", "rlP"], ["rpD", "rlP"], ["rpW", "rlP", "cbA"], ["rpW", "cbA", "rlP"]]
    jobs.append(dict(ctx=ctx, binary=binary, name="rlt", stacks=rlt, maxcalls=4, execs=2 if quick else 3, outs=seq.OUTS3, workers=4))
    # registrations of several errors / error types in one call, and a rate-based breaker whose trial window ends exactly on its threshold
    multi = [["rpH2"], ["fbH2", "rpH2"], ["rpH2", "cbA"], ["fbH2", "cbX"], ["rpT", "cbTy"], ["fbT", "rpTR"]]
    jobs.append(dict(ctx=ctx, binary=binary, name="multi", stacks=multi, outs=seq.OUTS_TY + [seq.out("R0", "E2")], maxcalls=3, execs=2, workers=4))
    rate = [["cbR2"], ["rpW", "cbR2"], ["fbO", "cbR2"]]
    jobs.append(dict(ctx=ctx, binary=binary, name="rate", stacks=rate, outs=[seq.out("R1"), seq.out("R0", "E1")], maxcalls=4, execs=3 if quick else 4, workers=4))
    tr = [["rpD"], ["rpDL"], ["rpD", "cbA"], ["fbR", "rpD"], ["rpUD"], ["rpD", "bh1"], ["rpDS"], ["rpDS", "cbA"]]
    jobs.append(dict(ctx=ctx, binary=binary, name="maxdur", stacks=tr, outs=[seq.out("R1"), seq.out("R0", "E1"), seq.out("R0", "E1", d=1), seq.out("R0", "E2", d=2)], maxcalls=4, execs=1, workers=4))
    ck = [["cK"], ["rp1", "cK"], ["cK", "rp1"], ["fbR", "cK"], ["cK", "cbA"], ["cIf", "cK"], ["cK", "cbHR"], ["cK", "rpHL"], ["cK", "fbOR"]]
    jobs.append(dict(ctx=ctx, binary=binary, name="ckeys", stacks=ck, outs=seq.OUTS3, maxcalls=2, execs=3, ctxkeys=("none", "k2", "nonstring"), workers=4))
    jobs.append(dict(ctx=ctx, binary=binary, name="bh0", stacks=[["bh0"], ["rp1", "bh0"], ["fbR", "bh0"], ["bh0", "rp1"]], outs=seq.OUTS3, maxcalls=2, execs=2, workers=2))
    # a fallback whose OWN output is an error it does not handle (verdict success) / a result it handles (verdict failure): what
    # the policies around it see and what the completion listeners are told
    fbown = [["fbHE"], ["fbRR"], ["rp", "fbHE"], ["rp", "fbRR"], ["fbHE", "rp1"], ["cbA", "fbHE"], ["cbA", "fbRR"], ["fbR", "fbHE"], ["cK", "fbHE"], ["fbHE", "cbA"]]
    jobs.append(dict(ctx=ctx, binary=binary, name="fbown", stacks=fbown, outs=seq.OUTS3, maxcalls=3, execs=2, workers=4))
    mism = seq.run_jobs(ctx, jobs, par=2)
    seq.report(ctx, mism, lambda m: m["tag"] in TAGS)
    # nesting with the two policies that need time and threads (Timeout firing, Hedge): the state of the stateful policies
    # inside must be what the nesting implies (permit returned, outcome recorded) - timed scenarios, validated by TLC
    import p_c07, tscen
    from tscen import scenario, fn, start, to, hg, bh, cb, retry, fb, cE
    scs = []
    for inner in ([bh("b", 1, wait=0)], [cb("c")], [retry(1, dly=1), bh("b", 1)], [fb(), cb("c")], [bh("b", 1), cb("c")]):
        for d in (1, 4):
            for coop in (True, False):
                fns = [[fn(d, "R0", "E1", coop), fn(1, "R1")], [fn(1, "R1"), fn(1, "R1")]]
                scs.append(scenario([to(2)] + inner, fns, [start(1), start(2, 6)]))
                scs.append(scenario([hg(1, 2)] + inner, fns, [start(1), start(2, 9)]))
                scs.append(scenario([retry(1, dly=1), to(2)] + inner, fns, [start(1), start(2, 9)]))
    p_c07.run_family(ctx, "c01t", scs)
    return vlib.finish(ctx, rule="every stack of depth <= D over %d policy descriptors (with repetition, shared stateful instances), every lazily chosen outcome script "
                       "(<= MaxCalls invocations per execution) and 2 successive executions; TLC tree enumeration; non-trivial = more than one invocation or any policy event" % len(BASE),
                       exhaustive=True)
