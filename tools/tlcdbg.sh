#!/bin/sh
# usage: tools/tlcdbg.sh <dir> [lines]  -- run TLC in a staged dir, print everything but emitted behaviours
cd "$1" && timeout 600 java -Xss64m -cp /opt/veriftools/tla/tla2tools.jar:/opt/veriftools/tla/CommunityModules-deps.jar tlc2.TLC -workers 8 -metadir /tmp/md.$$ -noGenerateSpecTE -config MC.cfg MC 2>&1 | grep -v '^"[{[]' | head -${2:-60}; rm -rf /tmp/md.$$
