"""C11 - cache policy: a hit skips everything inside; only cacheable results are stored; key precedence.
Spec: cache layer of specs/Failsafe.tla + C11_* invariants; histories of executions with configured / context keys."""
import vlib, seq

CACHES = ["cK", "cIf", "cIfE", "cIf2", "cNoKey"]
INNER = ["rp1", "cbA", "bh1", "rl2", "fbR", "rpH"]


def accept(m):
    return m["tag"] in ("calls", "ret", "verdict", "probe") or m["kind"] == "cache"


def run(ctx):
    binary = vlib.build_harness(ctx)
    quick = ctx.tier == "quick"
    st = [[c] for c in CACHES] + [[c, i] for c in CACHES for i in INNER] + [[i, c] for c in CACHES for i in INNER[:3]]
    st += [["cK", "cIf"], ["cIf", "cK"], ["cK", "cK"], ["cK", "rp1", "cbA"], ["cIfE", "rp1", "cbA"], ["cK", "cbHR"], ["cK", "rpHL"], ["cIf", "rpHL"], ["fbR", "cK", "cbHR"]]
    keys = ("none", "k", "k2", "", "nonstring")
    if quick:
        jobs = [dict(ctx=ctx, binary=binary, name="c%d" % k, stacks=st[k::2], outs=seq.OUTS3, maxcalls=2, execs=3, ctxkeys=("none", "k2", ""), workers=8) for k in range(2)]
        jobs.append(dict(ctx=ctx, binary=binary, name="ckeys", stacks=[["cK"], ["cIf", "rp1"], ["cNoKey"], ["cIfE", "cbA"]], outs=seq.OUTS3, maxcalls=2, execs=3, ctxkeys=keys, workers=8))
    else:
        jobs = [dict(ctx=ctx, binary=binary, name="c%d" % k, stacks=st[k::4], outs=seq.OUTS3, maxcalls=3, execs=3, ctxkeys=keys, workers=8) for k in range(4)]
    # an interface result type (R = any, as in failsafe.Run): the zero result is nil and must be cached and hit like any other
    jobs.append(dict(ctx=ctx, binary=binary, name="cany", stacks=[["cK"], ["cIf"], ["cIfE"], ["cNoKey"], ["cK", "cIf"]], outs=seq.OUTS4, maxcalls=2, execs=3,
                     ctxkeys=("none", "k2", ""), workers=4, mode="seq_cache_any"))
    mism = seq.run_jobs(ctx, jobs, par=2)
    seq.report(ctx, mism, accept)
    # overlapping executions through ONE cache policy (different keys, sync and async), cancellations and timeouts around it:
    # traces validated against the cache layer of specs/FailsafeT.tla; the cache's contents are compared at quiescence
    import p_c07, tscen
    from tscen import scenario, fn, start, env, to, retry, fb, cache, cE, cR
    scs = []
    stacks = [[cache("c")], [cache("c"), retry(1, dly=1)], [to(2), cache("c")], [cache("c"), to(2)], [fb(), cache("c", ifc=[cE("E1")])],
              [cache("c", key=""), retry(1, dly=1)], [cache("c"), cache("d", key="k9")]]
    for st in stacks:
        for cks in (("none", "k2", "none"), ("k1", "k2", "k1"), ("k1", "k1", "none")):
            for starts in ((0, 0, 3), (0, 1, 2), (0, 4, 8)):
                for pat in ("SSS", "FSS", "SFS"):
                    for coop in (True, False):
                        fns = [[fn(3 if j == 0 else 2, "R1" if p == "S" else "R0", None if p == "S" else "E1", coop)] * 3 for j, p in enumerate(pat)]
                        base = [start(j + 1, at, asyn=(j == 1), ck=cks[j]) for j, at in enumerate(starts)]
                        scs.append(scenario(st, fns, base))
                        if pat == "SSS" and coop:
                            pre = [dict(e, id="precanceled") if e["x"] == 3 else e for e in base]
                            scs.append(scenario(st, fns, pre))
                            scs.append(scenario(st, fns, [dict(e, dl=e["at"]) if e["x"] == 3 else e for e in base]))
                        if pat == "SSS":
                            for ct in ((1, 2) if quick else (0, 1, 2, 3)):
                                scs.append(scenario(st, fns, base + [env("CtxCancel", ct, 1)]))
    if quick:
        scs = scs[ctx.seed % 3::3]
    p_c07.run_family(ctx, "c11t", scs)
    return vlib.finish(ctx, rule="cache-centred stacks (configured key, CacheIf on a result, CacheIf on an error, no key) alone, over and under stateful inner policies; histories of 3-4 executions "
                       "whose context carries no key / the configured key / another key / the empty string / a non-string; non-trivial = more than one invocation or any policy event", exhaustive=True)
