"""C11 - cache policy: a hit skips everything inside; only cacheable results are stored; key precedence.
Spec: cache layer of specs/Failsafe.tla + C11_* invariants; histories of executions with configured / context keys."""
import vlib, seq

CACHES = ["cK", "cIf", "cIfE", "cNoKey"]
INNER = ["rp1", "cbA", "bh1", "rl2", "fbR", "rpH"]


def accept(m):
    return m["tag"] in ("calls", "ret", "verdict", "probe") or m["kind"] == "cache"


def run(ctx):
    binary = vlib.build_harness(ctx)
    quick = ctx.tier == "quick"
    st = [[c] for c in CACHES] + [[c, i] for c in CACHES for i in INNER] + [[i, c] for c in CACHES for i in INNER[:3]]
    st += [["cK", "cIf"], ["cIf", "cK"], ["cK", "cK"], ["cK", "rp1", "cbA"], ["cIfE", "rp1", "cbA"], ["cK", "cbHR"], ["cK", "rpHL"], ["cIf", "rpHL"], ["fbR", "cK", "cbHR"]]
    keys = ("none", "k", "k2", "", "nonstring")
    if quick:
        jobs = [dict(ctx=ctx, binary=binary, name="c%d" % k, stacks=st[k::2], outs=seq.OUTS3, maxcalls=2, execs=3, ctxkeys=("none", "k2", ""), workers=8) for k in range(2)]
        jobs.append(dict(ctx=ctx, binary=binary, name="ckeys", stacks=[["cK"], ["cIf", "rp1"], ["cNoKey"], ["cIfE", "cbA"]], outs=seq.OUTS3, maxcalls=2, execs=3, ctxkeys=keys, workers=8))
    else:
        jobs = [dict(ctx=ctx, binary=binary, name="c%d" % k, stacks=st[k::4], outs=seq.OUTS3, maxcalls=3, execs=3, ctxkeys=keys, workers=8) for k in range(4)]
    # an interface result type (R = any, as in failsafe.Run): the zero result is nil and must be cached and hit like any other
    jobs.append(dict(ctx=ctx, binary=binary, name="cany", stacks=[["cK"], ["cIf"], ["cIfE"], ["cNoKey"], ["cK", "cIf"]], outs=seq.OUTS4, maxcalls=2, execs=3,
                     ctxkeys=("none", "k2", ""), workers=4, mode="seq_cache_any"))
    mism = seq.run_jobs(ctx, jobs, par=2)
    seq.report(ctx, mism, accept)
    return vlib.finish(ctx, rule="cache-centred stacks (configured key, CacheIf on a result, CacheIf on an error, no key) alone, over and under stateful inner policies; histories of 3-4 executions "
                       "whose context carries no key / the configured key / another key / the empty string / a non-string; non-trivial = more than one invocation or any policy event", exhaustive=True)
