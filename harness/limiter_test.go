package vh

import (
	"bufio"
	"context"
	"encoding/json"
	"errors"
	"fmt"
	"math/rand"
	"os"
	"sort"
	"sync"
	"sync/atomic"
	"testing"
	"testing/synctest"
	"time"

	"github.com/failsafe-go/failsafe-go"
	"github.com/failsafe-go/failsafe-go/ratelimiter"
)

// ---- C05 direction A: TLC-generated limiter histories; expected waits come from the property's definition ----

type rlCfg struct {
	Kind    string `json:"kind"`
	I       int64  `json:"I"`
	P       int64  `json:"P"`
	M       uint   `json:"M"`
	MaxWait int64  `json:"maxWait"` // executor's max wait (units), for Exec steps
	UnitNs  int64  `json:"unit_ns"`
}

type rlStep struct {
	Act  string `json:"act"`
	K    uint   `json:"k"`
	Mw   int64  `json:"mw"`
	D    int64  `json:"d"`
	Wait int64  `json:"wait"`
}

func buildLimiter(c rlCfg, onExceeded func()) ratelimiter.RateLimiter[string] {
	u := time.Duration(c.UnitNs)
	var b ratelimiter.RateLimiterBuilder[string]
	if c.Kind == "smooth" {
		b = ratelimiter.SmoothBuilderWithMaxRate[string](time.Duration(c.I) * u)
	} else {
		b = ratelimiter.BurstyBuilder[string](c.M, time.Duration(c.P)*u)
	}
	b = b.WithMaxWaitTime(time.Duration(c.MaxWait) * u)
	if onExceeded != nil {
		b = b.OnRateLimitExceeded(func(failsafe.ExecutionEvent[string]) { onExceeded() })
	}
	return b.Build()
}

func replayLimiter(c rlCfg, steps []rlStep) (mis string, at int, nontrivial bool) {
	u := time.Duration(c.UnitNs)
	exceededEvents := 0
	rl := buildLimiter(c, func() { exceededEvents++ })
	ctx := context.Background()
	for i, s := range steps {
		var got time.Duration // -1 = refused
		mw := time.Duration(s.Mw) * u
		if s.Mw == -1 {
			mw = -1
		}
		switch s.Act {
		case "Tick":
			time.Sleep(time.Duration(s.D) * u)
			continue
		case "Try":
			var ok bool
			if s.K == 1 {
				ok = rl.TryAcquirePermit()
			} else {
				ok = rl.TryAcquirePermits(s.K)
			}
			got = -1
			if ok {
				got = 0
			}
		case "Reserve":
			if s.K == 1 {
				got = rl.ReservePermit()
			} else {
				got = rl.ReservePermits(s.K)
			}
		case "TryReserve":
			if s.K == 1 {
				got = rl.TryReservePermit(mw)
			} else {
				got = rl.TryReservePermits(s.K, mw)
			}
		case "Block":
			t0 := time.Now()
			var err error
			switch {
			case s.Mw == -1 && i%2 == 1 && s.K == 1:
				// "no max wait" spelled through the max-wait API (-1 is the limiter's sentinel for it)
				err = rl.AcquirePermitWithMaxWait(ctx, -1)
			case s.Mw == -1 && i%2 == 1:
				err = rl.AcquirePermitsWithMaxWait(ctx, s.K, -1)
			case s.Mw == -1 && s.K == 1:
				err = rl.AcquirePermit(ctx)
			case s.Mw == -1:
				err = rl.AcquirePermits(ctx, s.K)
			case s.K == 1:
				err = rl.AcquirePermitWithMaxWait(ctx, mw)
			default:
				err = rl.AcquirePermitsWithMaxWait(ctx, s.K, mw)
			}
			got = time.Since(t0)
			if errors.Is(err, ratelimiter.ErrExceeded) {
				if got != 0 {
					return fmt.Sprintf("refused blocking acquire took %v", got), i, true
				}
				got = -1
			} else if err != nil {
				return "unexpected error " + err.Error(), i, true
			}
		case "BlockDl":
			t0 := time.Now()
			dctx, dcancel := context.WithDeadline(ctx, t0.Add(time.Duration(s.D)*u))
			err := rl.AcquirePermitsWithMaxWait(dctx, s.K, mw)
			dcancel()
			got = time.Since(t0)
			switch {
			case errors.Is(err, ratelimiter.ErrExceeded):
				if got != 0 {
					return fmt.Sprintf("refused blocking acquire took %v", got), i, true
				}
				got = -1
			case errors.Is(err, context.DeadlineExceeded):
				// the wait was longer than the deadline: returned at the deadline, and the spec's wait must indeed be longer
				// (a wait that ends ON the deadline instant: the permit timer and the context are both ready, either may win)
				if s.Wait < s.D || got != time.Duration(s.D)*u {
					return fmt.Sprintf("BlockDl(k=%d,maxWait=%d,deadline=%d): context error after %v, spec wait %d", s.K, s.Mw, s.D, got, s.Wait), i, true
				}
				got = time.Duration(s.Wait) * u
			case err != nil:
				return "unexpected error " + err.Error(), i, true
			default:
				if s.Wait > s.D {
					return fmt.Sprintf("BlockDl(k=%d,maxWait=%d,deadline=%d): succeeded after %v although the wait (%d) is longer than the deadline", s.K, s.Mw, s.D, got, s.Wait), i, true
				}
			}
		case "Exec":
			t0 := time.Now()
			ran := false
			var ranAt time.Duration
			before := exceededEvents
			_, err := failsafe.Get(func() (string, error) { ran = true; ranAt = time.Since(t0); return "x", nil }, rl)
			got = time.Since(t0)
			if errors.Is(err, ratelimiter.ErrExceeded) {
				if ran {
					return "function ran although the execution was refused", i, true
				}
				if exceededEvents != before+1 {
					return fmt.Sprintf("OnRateLimitExceeded calls: want 1 got %d", exceededEvents-before), i, true
				}
				if got != 0 {
					return fmt.Sprintf("refused execution took %v", got), i, true
				}
				got = -1
			} else if err != nil {
				return "unexpected error " + err.Error(), i, true
			} else {
				if !ran || ranAt != got {
					return fmt.Sprintf("function ran=%v at %v, execution returned at %v", ran, ranAt, got), i, true
				}
				if exceededEvents != before {
					return "OnRateLimitExceeded called for an admitted execution", i, true
				}
			}
		default:
			return "unknown act " + s.Act, i, false
		}
		want := time.Duration(s.Wait) * u
		if s.Wait == -1 {
			want = -1
		}
		if s.Wait != 0 {
			nontrivial = true
		}
		if got != want {
			return fmt.Sprintf("%s(k=%d,maxWait=%d): want wait %v got %v", s.Act, s.K, s.Mw, want, got), i, true
		}
	}
	return "", -1, nontrivial
}

func init() {
	modes["limiter_replay"] = func(t *testing.T) {
		var cfg rlCfg
		envJSON("VH_CFG", &cfg)
		var n, bad, nontriv atomic.Int64
		var sample atomic.Value
		parallelLines(t, func(t *testing.T, line []byte) {
			var steps []rlStep
			if err := tlaJSON(line, &steps); err != nil {
				emit(M{"k": "error", "err": err.Error()})
				return
			}
			var mis string
			var at int
			var nt bool
			synctest.Test(t, func(t *testing.T) {
				mis, at, nt = replayLimiter(cfg, steps)
			})
			n.Add(1)
			if nt {
				nontriv.Add(1)
			}
			if mis != "" {
				if bad.Add(1) <= 20 {
					emit(M{"k": "mismatch", "what": mis, "step": at, "cfg": cfg, "hist": json.RawMessage(mustJSON(steps))})
				}
			} else if nt && sample.Load() == nil {
				sample.Store(mustJSON(steps))
			}
		})
		var smp any
		if s := sample.Load(); s != nil {
			smp = json.RawMessage(s.([]byte))
		}
		emit(M{"k": "summary", "n": n.Load(), "mismatches": bad.Load(), "nontrivial": nontriv.Load(), "sample": smp})
	}
}

// ---- C05 direction B under concurrency: N goroutines ask one limiter at the same virtual instant; the multiset of
// answers per round is validated by TLC against the property's definition (specs/LimiterConc.tla) ----

func init() {
	modes["limiter_conc"] = func(t *testing.T) {
		var cfg rlCfg
		envJSON("VH_CFG", &cfg)
		trials, rounds, nG := envInt("VH_N", 50), envInt("VH_ROUNDS", 12), envInt("VH_G", 8)
		out, err := os.Create(os.Getenv("VH_OUT"))
		if err != nil {
			t.Fatal(err)
		}
		defer out.Close()
		w := bufio.NewWriterSize(out, 1<<20)
		defer w.Flush()
		enc := func(v any) { b, _ := json.Marshal(v); w.Write(b); w.WriteByte('\n') }
		r := rand.New(rand.NewSource(int64(envInt("VH_SEED", 1))))
		u := time.Duration(cfg.UnitNs)
		span := cfg.I
		if cfg.Kind != "smooth" {
			span = cfg.P
		}
		nontrivial, calls := 0, 0
		for tr := 0; tr < trials; tr++ {
			var lines []any
			synctest.Test(t, func(t *testing.T) {
				rl := buildLimiter(cfg, nil)
				t0 := time.Now()
				for rd := 0; rd < rounds; rd++ {
					// stay, move inside the interval / period, to its edge, or past several
					gap := []int64{0, 1, span / 2, span - 1, span, span + 1, 3 * span}[r.Intn(7)]
					if gap > 0 {
						time.Sleep(time.Duration(gap) * u)
					}
					mw := []int64{0, 0, 1, span, 2 * span, -1}[r.Intn(6)]
					useTry := mw == 0 && r.Intn(2) == 0
					n := 2 + r.Intn(nG-1)
					res := make([]int64, n)
					startGate := make(chan struct{})
					var wg sync.WaitGroup
					for gi := 0; gi < n; gi++ {
						wg.Add(1)
						go func(gi int) {
							defer wg.Done()
							<-startGate
							switch {
							case useTry:
								if rl.TryAcquirePermit() {
									res[gi] = 0
								} else {
									res[gi] = -1
								}
							case mw == -1:
								res[gi] = int64(rl.ReservePermit())
							default:
								d := rl.TryReservePermit(time.Duration(mw) * u)
								res[gi] = int64(d)
							}
						}(gi)
					}
					synctest.Wait() // everybody parked at the gate
					close(startGate)
					wg.Wait()
					var waits []int64
					exact := true
					for _, d := range res {
						if d < 0 {
							continue
						}
						if d%int64(u) != 0 {
							exact = false
						}
						waits = append(waits, d/int64(u))
					}
					sort.Slice(waits, func(a, b int) bool { return waits[a] < waits[b] })
					if waits == nil {
						waits = []int64{}
					}
					calls += n
					if len(waits) < n {
						nontrivial++
					}
					lines = append(lines, M{"ev": "Round", "t": int64(time.Since(t0) / u), "mw": mw, "n": n, "waits": waits, "exact": exact})
				}
			})
			enc(M{"ev": "Reset"})
			for _, ln := range lines {
				enc(ln)
			}
		}
		emit(M{"k": "summary", "mode": "limiter_conc", "n": trials, "events": calls, "nontrivial": nontrivial})
	}
}
