package vh

import (
	"encoding/json"
	"errors"
	"fmt"
	"reflect"
	"sync/atomic"
	"testing"
	"testing/synctest"
	"time"

	"github.com/failsafe-go/failsafe-go"
	"github.com/failsafe-go/failsafe-go/circuitbreaker"
)

// ---- C03 direction A: TLC-generated breaker histories replayed on a real breaker in a synctest bubble ----

type brCfg struct {
	Fthr   uint  `json:"fthr"`
	Fcap   uint  `json:"fcap"`
	Frate  uint  `json:"frate"`
	Fexec  uint  `json:"fexec"`
	Period int64 `json:"period"`
	Sthr   uint  `json:"sthr"`
	Scap   uint  `json:"scap"`
	Delay  int64 `json:"delay"`
	UnitNs int64 `json:"unit_ns"`
}

type brEvent struct {
	Old string `json:"old"`
	New string `json:"new"`
	M   []uint `json:"m"`
}

type brObs struct {
	State  string    `json:"state"`
	Rem    int64     `json:"rem"`
	M      []uint    `json:"m"`
	Events []brEvent `json:"events"`
	Ret    string    `json:"ret"`
}

type brStep struct {
	Act string `json:"act"`
	D   int64  `json:"d"`
	Obs brObs  `json:"obs"`
}

func stateName(s circuitbreaker.State) string {
	switch s {
	case circuitbreaker.ClosedState:
		return "closed"
	case circuitbreaker.OpenState:
		return "open"
	case circuitbreaker.HalfOpenState:
		return "halfopen"
	}
	return "?"
}

func metricsOf(m circuitbreaker.Metrics) []uint {
	return []uint{m.Executions(), m.Failures(), m.FailureRate(), m.Successes(), m.SuccessRate()}
}

type brRec struct {
	specific []brEvent
	generic  []brEvent
	delayVal time.Duration // value the delay function returns for the execution in progress (-1: no computed delay)
	dfCalls  int
	dfBad    string // the delay function was handed something else than the failure being recorded
}

func buildBreaker(c brCfg, rec *brRec) circuitbreaker.CircuitBreaker[string] {
	u := time.Duration(c.UnitNs)
	b := circuitbreaker.Builder[string]()
	switch {
	case c.Frate != 0:
		b = b.WithFailureRateThreshold(c.Frate, c.Fexec, time.Duration(c.Period)*u)
	case c.Period != 0:
		b = b.WithFailureThresholdPeriod(c.Fthr, time.Duration(c.Period)*u)
	case c.Fthr == c.Fcap:
		b = b.WithFailureThreshold(c.Fthr)
	default:
		b = b.WithFailureThresholdRatio(c.Fthr, c.Fcap)
	}
	if c.Sthr != 0 {
		if c.Sthr == c.Scap {
			b = b.WithSuccessThreshold(c.Sthr)
		} else {
			b = b.WithSuccessThresholdRatio(c.Sthr, c.Scap)
		}
	}
	if rec != nil {
		b = b.HandleErrors(errBoom).HandleResult("bad")
	}
	if c.Delay >= 2000000000 {
		b = b.WithDelay(time.Duration(1<<63 - 1)) // effectively forever
	} else {
		b = b.WithDelay(time.Duration(c.Delay) * u)
	}
	if rec != nil {
		b = b.WithDelayFunc(func(exec failsafe.ExecutionAttempt[string]) time.Duration {
			rec.dfCalls++
			// the breaker opens for a delay computed from the failure that trips it
			if !errors.Is(exec.LastError(), errBoom) || exec.LastResult() != "" {
				rec.dfBad = fmt.Sprintf("the delay function was given (%q, %v), not the failing outcome (\"\", boom)", exec.LastResult(), exec.LastError())
			}
			return rec.delayVal
		})
		sp := func(e circuitbreaker.StateChangedEvent) {
			rec.specific = append(rec.specific, brEvent{stateName(e.OldState), stateName(e.NewState), metricsOf(e.Metrics())})
		}
		b = b.OnOpen(sp).OnHalfOpen(sp).OnClose(sp)
		b = b.OnStateChanged(func(e circuitbreaker.StateChangedEvent) {
			rec.generic = append(rec.generic, brEvent{stateName(e.OldState), stateName(e.NewState), metricsOf(e.Metrics())})
		})
	}
	return b.Build()
}

// replayBreaker returns "" or a description of the first mismatch.
func replayBreaker(c brCfg, steps []brStep) (mis string, step int, nontrivial bool) {
	rec := &brRec{}
	cb := buildBreaker(c, rec)
	u := time.Duration(c.UnitNs)
	for i, s := range steps {
		rec.specific, rec.generic = nil, nil
		ret := "none"
		switch s.Act {
		case "RecordSuccess":
			// the standalone spellings of "this went well" (the breaker handles errBoom and the result "bad", nothing else)
			switch i % 4 {
			case 0:
				cb.RecordSuccess()
			case 1:
				cb.RecordResult("r")
			case 2:
				cb.RecordError(errOther)
			case 3:
				cb.RecordError(nil)
			}
		case "RecordFailure":
			switch i % 4 {
			case 0, 3:
				cb.RecordFailure()
			case 1:
				cb.RecordError(fmt.Errorf("wrapped: %w", errBoom))
			case 2:
				cb.RecordResult("bad")
			}
		case "TryAcquirePermit":
			if cb.TryAcquirePermit() {
				ret = "true"
			} else {
				ret = "false"
			}
		case "Open":
			cb.Open()
		case "HalfOpen":
			cb.HalfOpen()
		case "Close":
			cb.Close()
		case "Exec":
			rec.delayVal = -1
			if s.D != -1 {
				rec.delayVal = time.Duration(s.D) * u
			}
			wantFail := s.Obs.Ret == "fail"
			ran := false
			_, err := failsafe.NewExecutor[string](cb).Get(func() (string, error) {
				ran = true
				if wantFail {
					return "", errBoom
				}
				return "r", nil
			})
			switch {
			case errors.Is(err, circuitbreaker.ErrOpen) && !ran:
				ret = "rejected"
			case ran && err == nil:
				ret = "ok"
			case ran && errors.Is(err, errBoom):
				ret = "fail"
			default:
				ret = fmt.Sprintf("ran=%v err=%v", ran, err)
			}
			if s.Obs.Ret == "rejected" && ret == "ok" {
				// the script's outcome for an admitted execution is unknown when the spec says "rejected"
				ret = "admitted"
			}
		case "Tick":
			time.Sleep(time.Duration(s.D) * u)
		default:
			return "unknown act " + s.Act, i, false
		}
		if rec.dfBad != "" {
			return rec.dfBad, i, true
		}
		st := stateName(cb.State())
		if st != "closed" {
			nontrivial = true
		}
		if st != s.Obs.State {
			return fmt.Sprintf("state: want %s got %s", s.Obs.State, st), i, nontrivial
		}
		// the boolean predicates must agree with State()
		if cb.IsOpen() != (st == "open") || cb.IsClosed() != (st == "closed") || cb.IsHalfOpen() != (st == "halfopen") {
			return "IsOpen/IsClosed/IsHalfOpen disagree with State()", i, nontrivial
		}
		if ret != s.Obs.Ret {
			return fmt.Sprintf("TryAcquirePermit: want %s got %s", s.Obs.Ret, ret), i, nontrivial
		}
		if rem := cb.RemainingDelay(); s.Obs.Rem >= 1000000000 {
			if rem <= time.Duration(1<<62) {
				return fmt.Sprintf("RemainingDelay: got %v for a breaker that is open forever (spec rem %d)", rem, s.Obs.Rem), i, nontrivial
			}
		} else if rem != time.Duration(s.Obs.Rem)*u {
			return fmt.Sprintf("RemainingDelay: want %v got %v", time.Duration(s.Obs.Rem)*u, rem), i, nontrivial
		}
		if m := metricsOf(cb.Metrics()); !reflect.DeepEqual(m, s.Obs.M) {
			return fmt.Sprintf("Metrics [exec fail frate succ srate]: want %v got %v", s.Obs.M, m), i, nontrivial
		}
		if !eventsEqual(rec.specific, s.Obs.Events) {
			return fmt.Sprintf("state-change events (specific listeners): want %v got %v", s.Obs.Events, rec.specific), i, nontrivial
		}
		if !eventsEqual(rec.generic, s.Obs.Events) {
			return fmt.Sprintf("state-change events (OnStateChanged): want %v got %v", s.Obs.Events, rec.generic), i, nontrivial
		}
	}
	return "", -1, nontrivial
}

var errBoom = errors.New("boom")
var errOther = errors.New("other")

func eventsEqual(a, b []brEvent) bool {
	if len(a) != len(b) {
		return false
	}
	for i := range a {
		if a[i].Old != b[i].Old || a[i].New != b[i].New || !reflect.DeepEqual(a[i].M, b[i].M) {
			return false
		}
	}
	return true
}

func init() {
	modes["breaker_replay"] = func(t *testing.T) {
		var cfg brCfg
		envJSON("VH_CFG", &cfg)
		var n, bad, nontriv atomic.Int64
		var sample atomic.Value
		parallelLines(t, func(t *testing.T, line []byte) {
			var steps []brStep
			if err := tlaJSON(line, &steps); err != nil {
				emit(M{"k": "error", "err": err.Error()})
				return
			}
			var mis string
			var at int
			var nt bool
			synctest.Test(t, func(t *testing.T) {
				mis, at, nt = replayBreaker(cfg, steps)
			})
			n.Add(1)
			if nt {
				nontriv.Add(1)
			}
			if mis != "" {
				if bad.Add(1) <= 20 {
					emit(M{"k": "mismatch", "what": mis, "step": at, "cfg": cfg, "hist": json.RawMessage(mustJSON(steps))})
				}
			} else if nt && sample.Load() == nil {
				sample.Store(mustJSON(steps))
			}
		})
		var smp any
		if s := sample.Load(); s != nil {
			smp = json.RawMessage(s.([]byte))
		}
		emit(M{"k": "summary", "n": n.Load(), "mismatches": bad.Load(), "nontrivial": nontriv.Load(), "sample": smp})
	}
}

func mustJSON(v any) []byte {
	b, err := json.Marshal(v)
	if err != nil {
		panic(err)
	}
	return b
}
