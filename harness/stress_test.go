package vh

import (
	"context"
	"errors"
	"fmt"
	"io"
	"math/rand"
	"net/http"
	"runtime"
	"strconv"
	"strings"
	"sync"
	"sync/atomic"
	"testing"
	"testing/synctest"
	"time"

	"github.com/failsafe-go/failsafe-go/failsafegrpc"
	"github.com/failsafe-go/failsafe-go/failsafehttp"
	"google.golang.org/grpc"

	"github.com/failsafe-go/failsafe-go"
	"github.com/failsafe-go/failsafe-go/bulkhead"
	"github.com/failsafe-go/failsafe-go/cachepolicy"
	"github.com/failsafe-go/failsafe-go/circuitbreaker"
	"github.com/failsafe-go/failsafe-go/fallback"
	"github.com/failsafe-go/failsafe-go/hedgepolicy"
	"github.com/failsafe-go/failsafe-go/ratelimiter"
	"github.com/failsafe-go/failsafe-go/retrypolicy"
	"github.com/failsafe-go/failsafe-go/timeout"
)

// ---- C14: free-running stress on shared policy instances, meant to be run under the race detector ----

type memCache struct {
	mu sync.Mutex
	m  map[string]string
}

func (c *memCache) Get(k string) (string, bool) {
	c.mu.Lock()
	defer c.mu.Unlock()
	v, ok := c.m[k]
	return v, ok
}
func (c *memCache) Set(k, v string) { c.mu.Lock(); c.m[k] = v; c.mu.Unlock() }

func init() {
	modes["race_stress"] = func(t *testing.T) {
		rounds := envInt("VH_N", 20)
		seed := int64(envInt("VH_SEED", 1))
		executions := 0
		problems := 0
		defer func() { emit(M{"k": "summary", "n": executions, "problems": problems}) }()
		// the adapters: ONE gRPC server interceptor, ONE gRPC client interceptor and ONE HTTP round tripper used by many callers at
		// once; every caller must get its own reply back (and the race detector watches the shared instances)
		t.Run("adapters", func(t *testing.T) {
			defer func() {
				if p := recover(); p != nil {
					problems++
					emit(M{"k": "problem", "what": "panic: " + toString(p), "round": -1})
				}
			}()
			if what := adapterStress(rounds); what != "" {
				problems++
				emit(M{"k": "problem", "what": what, "round": -1})
			}
			executions += rounds * 3 * 8
		})
		for r := 0; r < rounds; r++ {
			t.Run("round", func(t *testing.T) {
				defer func() {
					if p := recover(); p != nil {
						problems++
						emit(M{"k": "problem", "what": "panic: " + toString(p), "round": r})
					}
				}()
				synctest.Test(t, func(t *testing.T) {
					rng := rand.New(rand.NewSource(seed*1000 + int64(r)))
					u := time.Millisecond
					rp := retrypolicy.Builder[string]().WithMaxRetries(2).WithBackoff(u, 8*u).WithJitter(u / 2).Build()
					rpf := retrypolicy.Builder[string]().WithMaxRetries(2).WithRandomDelay(u, 3*u).WithJitterFactor(0.5).HandleResult("bad").Build()
					cb := circuitbreaker.Builder[string]().WithFailureThresholdRatio(3, 5).WithDelay(5 * u).WithSuccessThreshold(2).Build()
					cbt := circuitbreaker.Builder[string]().WithFailureRateThreshold(50, 4, 40*u).WithDelay(3 * u).Build()
					bh := bulkhead.Builder[string](3).WithMaxWaitTime(2 * u).Build()
					rls := ratelimiter.SmoothBuilderWithMaxRate[string](u).WithMaxWaitTime(2 * u).Build()
					rlb := ratelimiter.BurstyBuilder[string](5, 10*u).Build()
					to := timeout.With[string](4 * u)
					hg := hedgepolicy.BuilderWithDelay[string](2 * u).WithMaxHedges(2).CancelOnResult("ok").Build()
					fb := fallback.WithResult("fb")
					ca := cachepolicy.Builder[string](&memCache{m: map[string]string{}}).WithKey("k").Build()
					stacks := [][]failsafe.Policy[string]{
						{fb, rp, cb, to}, {rpf, bh}, {hg, to}, {rp, hg}, {hg, rp}, {to, rls}, {ca, rp, cbt}, {fb, hg, bh}, {rp, rlb, to}, {rp}, {to, hg, rpf},
					}
					errX := errors.New("x")
					var wg sync.WaitGroup
					G := 12
					for g := 0; g < G; g++ {
						grng := rand.New(rand.NewSource(rng.Int63()))
						wg.Add(1)
						go func(g int) {
							defer wg.Done()
							for k := 0; k < 6; k++ {
								st := stacks[grng.Intn(len(stacks))]
								d := time.Duration(grng.Intn(6)) * u
								out := grng.Intn(3)
								fn := func(e failsafe.Execution[string]) (string, error) {
									select {
									case <-time.After(d):
									case <-e.Canceled():
										return "", e.Context().Err()
									}
									_ = e.Attempts() + e.Retries() + e.Hedges() + e.Executions()
									_ = e.LastError()
									switch out {
									case 0:
										return "ok", nil
									case 1:
										return "bad", nil
									}
									return "", errX
								}
								ctx, cancel := context.WithCancel(context.Background())
								ex := failsafe.NewExecutor[string](st...).WithContext(ctx)
								switch grng.Intn(4) {
								case 0:
									ex.GetWithExecution(fn)
								case 1:
									er := ex.GetWithExecutionAsync(fn)
									if grng.Intn(2) == 0 {
										time.Sleep(time.Duration(grng.Intn(4)) * u)
										er.Cancel()
									}
									go er.IsDone()
									er.Get()
								case 2:
									cd := time.Duration(grng.Intn(5)) * u
									go func() { time.Sleep(cd); cancel() }()
									ex.GetWithExecution(fn)
								case 3:
									// standalone API calls racing with executions
									cb.TryAcquirePermit()
									cb.RecordFailure()
									cb.Metrics().FailureRate()
									cbt.RecordSuccess()
									cb.RecordResult("ok")
									cb.RecordError(nil)
									cbt.RecordResult("bad")
									cbt.RecordError(errX)
									if bh.TryAcquirePermit() {
										bh.ReleasePermit()
									}
									rls.TryAcquirePermit()
									rlb.ReservePermit()
									cb.State()
								}
								cancel()
							}
						}(g)
					}
					wg.Wait()
					// bursts of simultaneous TryAcquirePermit calls on a bulkhead with one permit: exactly one caller wins, and
					// nobody waits (a try never blocks, not even for the winner to give the permit back)
					for burst := 0; burst < 150; burst++ {
						b1 := bulkhead.With[string](1)
						gate := make(chan struct{})
						var wins, blocked atomic.Int32
						var bw sync.WaitGroup
						hold := make(chan struct{})
						for g := 0; g < 8; g++ {
							bw.Add(1)
							go func() {
								defer bw.Done()
								<-gate
								t0 := time.Now()
								ok := b1.TryAcquirePermit()
								if time.Since(t0) != 0 {
									blocked.Add(1)
								}
								if ok {
									wins.Add(1)
									<-hold
									time.Sleep(u) // the winner keeps its permit for a while (virtual time)
									b1.ReleasePermit()
								}
							}()
						}
						close(gate)
						synctest.Wait() // everybody has its answer, or is stuck
						close(hold)
						bw.Wait()
						if wins.Load() != 1 || blocked.Load() != 0 {
							problems++
							emit(M{"k": "problem", "what": fmt.Sprintf("8 simultaneous TryAcquirePermit calls on a bulkhead of 1: %d succeeded, %d waited", wins.Load(), blocked.Load()), "round": r})
							break
						}
					}
					time.Sleep(time.Second)
					synctest.Wait()
					executions += G * 6
				})
			})
		}
	}
}

type echoRT struct{}

func (echoRT) RoundTrip(r *http.Request) (*http.Response, error) {
	runtime.Gosched()
	return &http.Response{StatusCode: 200, Header: http.Header{"X-Echo": []string{r.Header.Get("X-Id")}}, Body: io.NopCloser(strings.NewReader(r.Header.Get("X-Id"))), Request: r}, nil
}

// adapterStress: 8 goroutines x rounds calls through shared adapter instances; returns "" or what went wrong.
func adapterStress(rounds int) string {
	srv := failsafegrpc.NewUnaryServerInterceptor[any](failsafegrpc.RetryPolicyBuilder[any]().WithMaxRetries(1).Build())
	cli := failsafegrpc.NewUnaryClientInterceptor[any](failsafegrpc.RetryPolicyBuilder[any]().WithMaxRetries(1).Build())
	rt := failsafehttp.NewRoundTripper(echoRT{}, failsafehttp.RetryPolicyBuilder().Build())
	var bad atomic.Value
	var wg sync.WaitGroup
	for g := 0; g < 8; g++ {
		wg.Add(1)
		go func(g int) {
			defer wg.Done()
			for k := 0; k < rounds; k++ {
				id := g*100000 + k
				resp, err := srv(context.Background(), id, &grpc.UnaryServerInfo{FullMethod: "/svc/M"}, func(c context.Context, req any) (any, error) {
					runtime.Gosched()
					return req.(int) + 1, nil
				})
				if err != nil || resp != any(id+1) {
					bad.Store(fmt.Sprintf("gRPC server interceptor: request %d got reply %v, %v", id, resp, err))
				}
				var reply int
				err = cli(context.Background(), "/svc/M", id, &reply, nil, func(c context.Context, method string, req, rep any, cc *grpc.ClientConn, opts ...grpc.CallOption) error {
					runtime.Gosched()
					*(rep.(*int)) = req.(int) + 2
					return nil
				})
				if err != nil || reply != id+2 {
					bad.Store(fmt.Sprintf("gRPC client interceptor: request %d got reply %v, %v", id, reply, err))
				}
				req, _ := http.NewRequest("GET", "http://echo/x", nil)
				req.Header.Set("X-Id", strconv.Itoa(id))
				hr, err := rt.RoundTrip(req)
				if err != nil || hr.Header.Get("X-Echo") != strconv.Itoa(id) {
					bad.Store(fmt.Sprintf("HTTP round tripper: request %d got %v, %v", id, hr, err))
				}
			}
		}(g)
	}
	wg.Wait()
	// overlapping attempts of ONE execution (a hedge fires while the first attempt is still uploading): each attempt gets the
	// complete body of a non-seekable upload
	payload := strings.Repeat("0123456789", 400)
	slow := roundTripperFunc(func(r *http.Request) (*http.Response, error) {
		half := make([]byte, len(payload)/2)
		n, _ := io.ReadFull(r.Body, half)
		time.Sleep(3 * time.Millisecond) // the hedge starts meanwhile
		rest, _ := io.ReadAll(r.Body)
		if got := string(half[:n]) + string(rest); got != payload {
			bad.Store(fmt.Sprintf("hedged HTTP attempts: an attempt uploaded %d of %d bytes", len(got), len(payload)))
		}
		return &http.Response{StatusCode: 200, Header: http.Header{}, Body: io.NopCloser(strings.NewReader("ok")), Request: r}, nil
	})
	hrt := failsafehttp.NewRoundTripper(slow, hedgepolicy.BuilderWithDelay[*http.Response](time.Millisecond).WithMaxHedges(2).Build())
	for k := 0; k < rounds; k++ {
		req, _ := http.NewRequest("POST", "http://echo/upload", struct{ io.Reader }{strings.NewReader(payload)})
		if resp, err := hrt.RoundTrip(req); err != nil {
			bad.Store(fmt.Sprintf("hedged HTTP attempts: %v", err))
		} else {
			resp.Body.Close()
		}
	}
	time.Sleep(20 * time.Millisecond)
	if v := bad.Load(); v != nil {
		return v.(string)
	}
	return ""
}
