package vh

import (
	"context"
	"errors"
	"math/rand"
	"sync"
	"testing"
	"testing/synctest"
	"time"

	"github.com/failsafe-go/failsafe-go"
	"github.com/failsafe-go/failsafe-go/bulkhead"
	"github.com/failsafe-go/failsafe-go/cachepolicy"
	"github.com/failsafe-go/failsafe-go/circuitbreaker"
	"github.com/failsafe-go/failsafe-go/fallback"
	"github.com/failsafe-go/failsafe-go/hedgepolicy"
	"github.com/failsafe-go/failsafe-go/ratelimiter"
	"github.com/failsafe-go/failsafe-go/retrypolicy"
	"github.com/failsafe-go/failsafe-go/timeout"
)

// ---- C14: free-running stress on shared policy instances, meant to be run under the race detector ----

type memCache struct {
	mu sync.Mutex
	m  map[string]string
}

func (c *memCache) Get(k string) (string, bool) {
	c.mu.Lock()
	defer c.mu.Unlock()
	v, ok := c.m[k]
	return v, ok
}
func (c *memCache) Set(k, v string) { c.mu.Lock(); c.m[k] = v; c.mu.Unlock() }

func init() {
	modes["race_stress"] = func(t *testing.T) {
		rounds := envInt("VH_N", 20)
		seed := int64(envInt("VH_SEED", 1))
		executions := 0
		problems := 0
		defer func() { emit(M{"k": "summary", "n": executions, "problems": problems}) }()
		for r := 0; r < rounds; r++ {
			t.Run("round", func(t *testing.T) {
				defer func() {
					if p := recover(); p != nil {
						problems++
						emit(M{"k": "problem", "what": "panic: " + toString(p), "round": r})
					}
				}()
				synctest.Test(t, func(t *testing.T) {
					rng := rand.New(rand.NewSource(seed*1000 + int64(r)))
					u := time.Millisecond
					rp := retrypolicy.Builder[string]().WithMaxRetries(2).WithBackoff(u, 8*u).WithJitter(u / 2).Build()
					rpf := retrypolicy.Builder[string]().WithMaxRetries(2).WithRandomDelay(u, 3*u).WithJitterFactor(0.5).HandleResult("bad").Build()
					cb := circuitbreaker.Builder[string]().WithFailureThresholdRatio(3, 5).WithDelay(5 * u).WithSuccessThreshold(2).Build()
					cbt := circuitbreaker.Builder[string]().WithFailureRateThreshold(50, 4, 40*u).WithDelay(3 * u).Build()
					bh := bulkhead.Builder[string](3).WithMaxWaitTime(2 * u).Build()
					rls := ratelimiter.SmoothBuilderWithMaxRate[string](u).WithMaxWaitTime(2 * u).Build()
					rlb := ratelimiter.BurstyBuilder[string](5, 10*u).Build()
					to := timeout.With[string](4 * u)
					hg := hedgepolicy.BuilderWithDelay[string](2 * u).WithMaxHedges(2).CancelOnResult("ok").Build()
					fb := fallback.WithResult("fb")
					ca := cachepolicy.Builder[string](&memCache{m: map[string]string{}}).WithKey("k").Build()
					stacks := [][]failsafe.Policy[string]{
						{fb, rp, cb, to}, {rpf, bh}, {hg, to}, {rp, hg}, {hg, rp}, {to, rls}, {ca, rp, cbt}, {fb, hg, bh}, {rp, rlb, to}, {rp}, {to, hg, rpf},
					}
					errX := errors.New("x")
					var wg sync.WaitGroup
					G := 12
					for g := 0; g < G; g++ {
						grng := rand.New(rand.NewSource(rng.Int63()))
						wg.Add(1)
						go func(g int) {
							defer wg.Done()
							for k := 0; k < 6; k++ {
								st := stacks[grng.Intn(len(stacks))]
								d := time.Duration(grng.Intn(6)) * u
								out := grng.Intn(3)
								fn := func(e failsafe.Execution[string]) (string, error) {
									select {
									case <-time.After(d):
									case <-e.Canceled():
										return "", e.Context().Err()
									}
									_ = e.Attempts() + e.Retries() + e.Hedges() + e.Executions()
									_ = e.LastError()
									switch out {
									case 0:
										return "ok", nil
									case 1:
										return "bad", nil
									}
									return "", errX
								}
								ctx, cancel := context.WithCancel(context.Background())
								ex := failsafe.NewExecutor[string](st...).WithContext(ctx)
								switch grng.Intn(4) {
								case 0:
									ex.GetWithExecution(fn)
								case 1:
									er := ex.GetWithExecutionAsync(fn)
									if grng.Intn(2) == 0 {
										time.Sleep(time.Duration(grng.Intn(4)) * u)
										er.Cancel()
									}
									go er.IsDone()
									er.Get()
								case 2:
									cd := time.Duration(grng.Intn(5)) * u
									go func() { time.Sleep(cd); cancel() }()
									ex.GetWithExecution(fn)
								case 3:
									// standalone API calls racing with executions
									cb.TryAcquirePermit()
									cb.RecordFailure()
									cb.Metrics().FailureRate()
									cbt.RecordSuccess()
									if bh.TryAcquirePermit() {
										bh.ReleasePermit()
									}
									rls.TryAcquirePermit()
									rlb.ReservePermit()
									cb.State()
								}
								cancel()
							}
						}(g)
					}
					wg.Wait()
					time.Sleep(time.Second)
					synctest.Wait()
					executions += G * 6
				})
			})
		}
	}
}
