package vh

import (
	"bufio"
	"bytes"
	"context"
	"encoding/json"
	"errors"
	"fmt"
	"github.com/failsafe-go/failsafe-go/retrypolicy"
	"io"
	"net"
	"net/http"
	"net/http/httptest"
	"os"
	"strconv"
	"strings"
	"sync"
	"sync/atomic"
	"testing"
	"testing/synctest"
	"time"

	"google.golang.org/grpc"
	"google.golang.org/grpc/codes"
	"google.golang.org/grpc/metadata"
	"google.golang.org/grpc/status"

	"github.com/failsafe-go/failsafe-go"
	"github.com/failsafe-go/failsafe-go/circuitbreaker"
	"github.com/failsafe-go/failsafe-go/failsafegrpc"
	"github.com/failsafe-go/failsafe-go/failsafehttp"
	"github.com/failsafe-go/failsafe-go/fallback"
	"github.com/failsafe-go/failsafe-go/hedgepolicy"
	"github.com/failsafe-go/failsafe-go/timeout"
)

// ---- C18 / C19: HTTP and gRPC adapters; real http.Transport + http.Server over net.Pipe inside a synctest bubble ----

type hResp struct {
	Status int    `json:"status"`
	Ra     int    `json:"ra"`   // Retry-After seconds, -1 none
	Err    string `json:"err"`  // "none" | "conn" | "attemptdl"
	Mode   string `json:"mode"` // "buffered" | "streamed"
}

type hScenario struct {
	Script     []hResp  `json:"script"`
	MaxRetries int      `json:"maxRetries"`
	BodyKind   string   `json:"bodyKind"` // none buffer reader seeker stream empty
	BodySize   int      `json:"bodySize"`
	ReqCtx     string   `json:"reqCtx"`  // background todo cancellable values deadline
	ExecCtx    string   `json:"execCtx"` // none values
	Policies   []string `json:"policies"`
	Via        string   `json:"via"`  // roundtripper | request
	Grpc       string   `json:"grpc"` // "" | client | server
	Method     string   `json:"method"`
}

type pipeListener struct {
	ch     chan net.Conn
	closed chan struct{}
	once   sync.Once
}

func (l *pipeListener) Accept() (net.Conn, error) {
	select {
	case c := <-l.ch:
		return c, nil
	case <-l.closed:
		return nil, net.ErrClosed
	}
}
func (l *pipeListener) Close() error   { l.once.Do(func() { close(l.closed) }); return nil }
func (l *pipeListener) Addr() net.Addr { return &net.TCPAddr{IP: net.IPv4(127, 0, 0, 1), Port: 80} }
func (l *pipeListener) dial() (net.Conn, error) {
	a, b := net.Pipe()
	select {
	case l.ch <- b:
		return a, nil
	case <-l.closed:
		return nil, net.ErrClosed
	}
}

type ctxKeyT string

type trackedBody struct {
	io.ReadCloser
	onClose func()
	once    sync.Once
}

func (b *trackedBody) Close() error { b.once.Do(b.onClose); return b.ReadCloser.Close() }

// seekBody is an io.ReadSeeker that is not one of the specially handled concrete types
type seekBody struct{ *strings.Reader }

// failSeeker is an io.ReadSeeker whose n-th and later Seek calls fail (n = failFrom)
type failSeeker struct {
	*strings.Reader
	seeks    atomic.Int32
	failFrom int32
}

func (f *failSeeker) Seek(off int64, whence int) (int64, error) {
	if f.seeks.Add(1) >= f.failFrom {
		return 0, errors.New("seek: upload cannot be rewound")
	}
	return f.Reader.Seek(off, whence)
}

type failSeekCloser struct{ *failSeeker }

func (failSeekCloser) Close() error { return nil }

// plainStream hides every optional interface
type plainStream struct{ r io.Reader }

func (p plainStream) Read(b []byte) (int, error) { return p.r.Read(b) }

func makeBody(kind string, data []byte) io.Reader {
	switch kind {
	case "none":
		return nil
	case "buffer":
		return bytes.NewBuffer(append([]byte(nil), data...))
	case "reader":
		return bytes.NewReader(data)
	case "seeker":
		return seekBody{strings.NewReader(string(data))}
	case "seekfail":
		// a seekable upload that can be rewound once only: the second Seek (the second attempt's rewind) fails
		return &failSeeker{Reader: strings.NewReader(string(data)), failFrom: 2}
	case "stream", "stream0":
		return plainStream{bytes.NewReader(data)}
	case "empty":
		return plainStream{bytes.NewReader(nil)}
	}
	panic("body kind " + kind)
}

func runHTTPScenario(t *testing.T, sc hScenario) (lines []M, problem string) {
	unit := time.Second
	defer func() {
		if r := recover(); r != nil {
			problem = "panic: " + strings.SplitN(toString(r), "\n", 2)[0]
			if strings.Contains(problem, "blocked goroutines remain") && len(lines) > 0 && lines[len(lines)-1]["ev"] == "HQuiesce" {
				problem = "" // leaked goroutines: already counted in the HQuiesce line, which the specification rejects
			}
		}
	}()
	synctest.Test(t, func(t *testing.T) {
		t0 := time.Now()
		var mu sync.Mutex
		add := func(m M) { mu.Lock(); lines = append(lines, m); mu.Unlock() }
		cfg := M{"script": sc.Script, "maxRetries": sc.MaxRetries, "unitsPerSec": 1, "policies": append([]string{}, sc.Policies...), "seekFailFrom": map[bool]int{true: 2, false: 0}[sc.BodyKind == "seekfail"]}
		add(M{"ev": "HConfig", "cfg": cfg, "scenario": sc})
		data := bytes.Repeat([]byte("0123456789abcdef"), (sc.BodySize+15)/16)[:sc.BodySize]
		if sc.BodyKind == "none" || sc.BodyKind == "empty" {
			data = nil
		}
		respBody := bytes.Repeat([]byte("response-body-"), 300)
		ln := &pipeListener{ch: make(chan net.Conn), closed: make(chan struct{})}
		var attempt int
		type arrival struct {
			n          int
			t, tend    time.Duration
			method, ur string
			hdr        string
			body       []byte
			skip       bool
			cancelled  bool
		}
		arrivals := map[int]*arrival{}
		srv := &http.Server{Handler: http.HandlerFunc(func(w http.ResponseWriter, r *http.Request) {
			mu.Lock()
			attempt++
			n := attempt
			a := &arrival{n: n, t: time.Since(t0), method: r.Method, ur: r.URL.Path + "?" + r.URL.RawQuery, hdr: r.Header.Get("X-Orig") + "|" + r.Header.Get("Content-Type")}
			arrivals[n] = a
			mu.Unlock()
			early := n <= len(sc.Script) && sc.Script[n-1].Mode == "early"
			if early {
				// refuse at once, without reading the upload (an early 429/503); this attempt's body is not judged
				mu.Lock()
				a.skip = true
				mu.Unlock()
			} else {
				b, _ := io.ReadAll(r.Body)
				mu.Lock()
				a.body = b
				mu.Unlock()
			}
			sr := hResp{Status: 200, Ra: -1, Err: "none", Mode: "buffered"}
			if n <= len(sc.Script) {
				sr = sc.Script[n-1]
			}
			if sr.Err == "attemptdl" {
				// the server does not answer; the client side bounds every attempt with a deadline of its own (see inner below)
				tm := time.NewTimer(3 * unit)
				select {
				case <-tm.C:
				case <-r.Context().Done():
					tm.Stop()
				}
			}
			if sr.Err == "conn" || sr.Err == "attemptdl" {
				a.tend = time.Since(t0)
				if hj, ok := w.(http.Hijacker); ok {
					c, _, _ := hj.Hijack()
					c.Close()
				}
				return
			}
			if sr.Ra >= 0 {
				w.Header().Set("Retry-After", strconv.Itoa(sr.Ra))
			}
			if sr.Mode == "slow" {
				time.Sleep(unit) // the server takes a while to answer: Retry-After counts from the answer, not from the request
			}
			if sr.Mode == "slow3" {
				// a very slow answer: a client-side Timeout fires meanwhile, and the attempt - whatever its body - is cancelled
				tm := time.NewTimer(3 * unit)
				select {
				case <-tm.C:
				case <-r.Context().Done():
					tm.Stop()
					mu.Lock()
					a.cancelled = true
					a.tend = time.Since(t0)
					mu.Unlock()
					return
				}
			}
			w.WriteHeader(sr.Status)
			if sr.Mode == "streamed" {
				half := len(respBody) / 2
				w.Write(respBody[:half])
				if f, ok := w.(http.Flusher); ok {
					f.Flush()
				}
				time.Sleep(unit)
				w.Write(respBody[half:])
			} else {
				w.Write(respBody)
			}
			a.tend = time.Since(t0)
		})}
		go srv.Serve(ln)
		base := &http.Transport{DialContext: func(ctx context.Context, network, addr string) (net.Conn, error) { return ln.dial() }}
		// instrumented inner RoundTripper: what context does each attempt run under, and is every response closed?
		var deadline time.Time
		opened, closedN := 0, 0
		ctxSeen := map[int]M{}
		var rtN int
		inner := roundTripperFunc(func(r *http.Request) (*http.Response, error) {
			mu.Lock()
			rtN++
			n := rtN
			mu.Unlock()
			c := r.Context()
			vals := true
			if sc.ReqCtx == "values" {
				vals = c.Value(ctxKeyT("caller")) == "v1"
			}
			dl := true
			if sc.ReqCtx == "deadline" {
				d, ok := c.Deadline()
				dl = ok && d.Equal(deadline)
			}
			mu.Lock()
			ctxSeen[n] = M{"vals": vals, "dl": dl}
			mu.Unlock()
			if n <= len(sc.Script) && sc.Script[n-1].Err == "attemptdl" {
				// a per-attempt deadline below the adapter (the caller's context stays alive): the attempt fails with an error that
				// wraps context.DeadlineExceeded - a transient error like any other
				c2, cancel2 := context.WithTimeout(r.Context(), unit/2)
				defer cancel2()
				r = r.WithContext(c2)
			}
			resp, err := base.RoundTrip(r)
			if resp != nil {
				mu.Lock()
				opened++
				mu.Unlock()
				resp.Body = &trackedBody{ReadCloser: resp.Body, onClose: func() { mu.Lock(); closedN++; mu.Unlock() }}
			}
			return resp, err
		})
		// policies
		rb := failsafehttp.RetryPolicyBuilder().WithMaxRetries(sc.MaxRetries).ReturnLastFailure()
		ps := []failsafe.Policy[*http.Response]{}
		for _, p := range sc.Policies {
			switch p {
			case "retry":
				ps = append(ps, rb.Build())
			case "retryx":
				// the default policy of the adapter: when the retries run out the caller gets an ExceededError carrying the last response
				ps = append(ps, failsafehttp.RetryPolicyBuilder().WithMaxRetries(sc.MaxRetries).Build())
			case "retryrd":
				// a random delay is configured as well: the server's Retry-After (the delay function) still has to win
				ps = append(ps, failsafehttp.RetryPolicyBuilder().WithMaxRetries(sc.MaxRetries).ReturnLastFailure().WithRandomDelay(unit/100, unit/50).Build())
			case "retrybo":
				// a backoff is configured as well: the server's Retry-After (the delay function) still has to win
				ps = append(ps, failsafehttp.RetryPolicyBuilder().WithMaxRetries(sc.MaxRetries).ReturnLastFailure().WithBackoff(unit/10, unit/2).Build())
			case "timeout":
				ps = append(ps, timeout.With[*http.Response](time.Hour))
			case "timeout1":
				ps = append(ps, timeout.With[*http.Response](unit)) // a Timeout that fires while the server is still thinking
			case "hedge":
				ps = append(ps, hedgepolicy.WithDelay[*http.Response](time.Hour))
			case "breaker":
				ps = append(ps, circuitbreaker.Builder[*http.Response]().WithFailureThreshold(50).Build())
			case "fallback":
				ps = append(ps, fallback.BuilderWithFunc(func(e failsafe.Execution[*http.Response]) (*http.Response, error) {
					return e.LastResult(), e.LastError()
				}).
					HandleIf(func(r *http.Response, err error) bool { return false }).Build())
			}
		}
		var ex failsafe.Executor[*http.Response] = failsafe.NewExecutor[*http.Response](ps...)
		if sc.ExecCtx == "values" {
			ex = ex.WithContext(context.WithValue(context.Background(), ctxKeyT("exec"), "e1"))
		}
		// request
		var rctx context.Context
		var rcancel context.CancelFunc = func() {}
		switch sc.ReqCtx {
		case "background":
			rctx = context.Background()
		case "todo":
			rctx = context.TODO()
		case "cancellable":
			rctx, rcancel = context.WithCancel(context.Background())
		case "values":
			rctx = context.WithValue(context.Background(), ctxKeyT("caller"), "v1")
		case "deadline":
			deadline = time.Now().Add(24 * time.Hour)
			rctx, rcancel = context.WithDeadline(context.Background(), deadline)
		}
		method := sc.Method
		if method == "" {
			method = "POST"
		}
		req, err := http.NewRequestWithContext(rctx, method, "http://pipe/path/x?q=1", nil)
		if err != nil {
			panic(err)
		}
		if b := makeBody(sc.BodyKind, data); b != nil {
			if rc, ok := b.(io.ReadCloser); ok {
				req.Body = rc
			} else {
				req.Body = io.NopCloser(b)
				// keep the concrete type visible to the adapter, as http.NewRequest would for the known types
				req.Body = bodyWrap(b)
			}
			req.ContentLength = int64(len(data))
			if sc.BodyKind == "stream" || sc.BodyKind == "empty" {
				req.ContentLength = -1
			}
			if sc.BodyKind == "stream0" {
				req.ContentLength = 0 // unknown length, the way http.NewRequest leaves it
			}
		}
		req.Header.Set("X-Orig", "h1")
		req.Header.Set("Content-Type", "text/x-test")
		var resp *http.Response
		var rerr error
		if sc.Via == "request" {
			client := &http.Client{Transport: inner}
			resp, rerr = failsafehttp.NewRequestWithExecutor(req, client, ex).Do()
		} else {
			client := &http.Client{Transport: failsafehttp.NewRoundTripperWithExecutor(inner, ex)}
			resp, rerr = client.Do(req)
		}
		final := M{"ev": "Final", "status": -1, "bodyReadable": false, "bodyEqual": false, "t": int64(time.Since(t0) / unit)}
		if rerr == nil && resp != nil {
			b, e2 := io.ReadAll(resp.Body)
			resp.Body.Close()
			final["status"] = resp.StatusCode
			final["bodyReadable"] = e2 == nil
			final["bodyEqual"] = bytes.Equal(b, respBody)
			if e2 != nil {
				final["readErr"] = e2.Error()
			}
		} else if rerr != nil {
			final["err"] = rerr.Error()
			var ex retrypolicy.ExceededError
			if errors.As(rerr, &ex) {
				final["exceeded"] = true
				final["exStatus"] = -1
				if lr, ok := ex.LastResult.(*http.Response); ok && lr != nil {
					final["exStatus"] = lr.StatusCode
					lr.Body.Close()
				}
			}
		}
		// (let everything settle first: a server handler learns of a cancelled attempt a little later than the caller returns)
		time.Sleep(10 * unit)
		synctest.Wait()
		// attempts as the server saw them
		mu.Lock()
		for n := 1; n <= attempt; n++ {
			a := arrivals[n]
			cs := ctxSeen[n]
			if cs == nil {
				cs = M{"vals": true, "dl": true}
			}
			lines = append(lines, M{"ev": "Req", "n": n, "t": int64(a.t / unit), "tend": int64(a.tend / unit),
				"sameMethod": a.method == method, "sameURL": a.ur == "/path/x?q=1", "sameHeaders": a.hdr == "h1|text/x-test",
				"bodyComplete": a.skip || bytes.Equal(a.body, data), "bodyLen": len(a.body), "ctxValues": cs["vals"], "ctxDeadline": cs["dl"], "srvCancelled": a.cancelled})
		}
		mu.Unlock()
		add(final)
		live, stacks := liveLibraryGoroutines()
		mu.Lock()
		unclosed := opened - closedN
		mu.Unlock()
		q := M{"ev": "HQuiesce", "live": live, "unclosed": unclosed, "opened": opened}
		if live > 0 {
			q["stacks"] = stacks
		}
		add(q)
		rcancel()
		base.CloseIdleConnections()
		srv.Close()
		ln.Close()
		time.Sleep(unit)
		synctest.Wait()
	})
	return lines, problem
}

type roundTripperFunc func(*http.Request) (*http.Response, error)

func (f roundTripperFunc) RoundTrip(r *http.Request) (*http.Response, error) { return f(r) }

// bodyWrap returns the reader itself when it is already an io.ReadCloser-compatible known type, else a closer that
// keeps the dynamic type (failsafehttp's bodyReader switches on the dynamic type of request.Body).
func bodyWrap(r io.Reader) io.ReadCloser {
	switch v := r.(type) {
	case *bytes.Buffer:
		return bufCloser{v}
	case *bytes.Reader:
		return readerCloser{v}
	case seekBody:
		return seekCloser{v, &atomic.Bool{}}
	case plainStream:
		return streamCloser{v}
	case *failSeeker:
		return failSeekCloser{v}
	}
	return io.NopCloser(r)
}

type bufCloser struct{ *bytes.Buffer }

func (bufCloser) Close() error { return nil }

type readerCloser struct{ *bytes.Reader }

func (readerCloser) Close() error { return nil }

// seekCloser behaves like an *os.File upload: seekable, and unusable once closed
type seekCloser struct {
	seekBody
	closed *atomic.Bool
}

var errBodyClosed = errors.New("seek/read: file already closed")

func (s seekCloser) Close() error { s.closed.Store(true); return nil }
func (s seekCloser) Read(p []byte) (int, error) {
	if s.closed.Load() {
		return 0, errBodyClosed
	}
	return s.seekBody.Read(p)
}
func (s seekCloser) Seek(off int64, whence int) (int64, error) {
	if s.closed.Load() {
		return 0, errBodyClosed
	}
	return s.seekBody.Seek(off, whence)
}

type streamCloser struct{ plainStream }

func (streamCloser) Close() error { return nil }

// ---- gRPC interceptors with a fake invoker / handler ----

func runGRPCScenario(t *testing.T, sc hScenario) (lines []M, problem string) {
	defer func() {
		if r := recover(); r != nil {
			problem = "panic: " + strings.SplitN(toString(r), "\n", 2)[0]
			if strings.Contains(problem, "blocked goroutines remain") && len(lines) > 0 && lines[len(lines)-1]["ev"] == "GFinal" {
				problem = ""
			}
		}
	}()
	synctest.Test(t, func(t *testing.T) {
		cfg := M{"script": sc.Script, "maxRetries": sc.MaxRetries, "unitsPerSec": 1, "policies": append([]string{}, sc.Policies...), "seekFailFrom": map[bool]int{true: 2, false: 0}[sc.BodyKind == "seekfail"]}
		lines = append(lines, M{"ev": "HConfig", "cfg": cfg, "scenario": sc})
		deadline := time.Now().Add(24 * time.Hour)
		ctx := context.WithValue(context.Background(), ctxKeyT("caller"), "v1")
		ctx, cancel := context.WithDeadline(ctx, deadline)
		defer cancel()
		ctx = metadata.AppendToOutgoingContext(ctx, "k-out", "v-out")
		ctx = metadata.NewIncomingContext(ctx, metadata.Pairs("k-in", "v-in"))
		rp := failsafegrpc.RetryPolicyBuilder[any]().WithMaxRetries(sc.MaxRetries).ReturnLastFailure().Build()
		ps := []failsafe.Policy[any]{rp}
		for _, p := range sc.Policies {
			if p == "timeout" {
				ps = append(ps, timeout.With[any](time.Hour))
			}
		}
		ex := failsafe.NewExecutor[any](ps...)
		if sc.ExecCtx == "values" {
			ex = ex.WithContext(context.WithValue(context.Background(), ctxKeyT("exec"), "e1"))
		}
		codeOf := func(r hResp) codes.Code {
			switch r.Status {
			case 200:
				return codes.OK
			case 503:
				return codes.Unavailable
			case 504:
				return codes.DeadlineExceeded
			case 429:
				return codes.ResourceExhausted
			case 500:
				return codes.Internal
			case 404:
				return codes.NotFound
			}
			return codes.Unknown
		}
		retryable := func(c codes.Code) bool {
			return c == codes.Unavailable || c == codes.DeadlineExceeded || c == codes.ResourceExhausted
		}
		reqArg := &struct{ A int }{41}
		replyArg := &struct{ B string }{}
		n := 0
		var lastErr error
		var lastCode codes.Code
		check := func(c context.Context, req any) M {
			n++
			prevRetryable := true
			if n > 1 {
				prevRetryable = retryable(codeOf(sc.Script[n-2]))
			}
			d, ok := c.Deadline()
			mdOut, okOut := metadata.FromOutgoingContext(c)
			mdIn, okIn := metadata.FromIncomingContext(c)
			return M{"ev": "GCall", "n": n, "sameArgs": req == any(reqArg), "ctxValues": c.Value(ctxKeyT("caller")) == "v1",
				"ctxDeadline": ok && d.Equal(deadline), "prevRetryable": prevRetryable,
				"ctxMetadata": okOut && okIn && len(mdOut.Get("k-out")) == 1 && len(mdIn.Get("k-in")) == 1}
		}
		respond := func() error {
			r := hResp{Status: 200}
			if n <= len(sc.Script) {
				r = sc.Script[n-1]
			}
			if c := codeOf(r); c != codes.OK {
				lastErr = status.Error(c, "scripted")
				lastCode = c
				if n%2 == 0 {
					// every other failing attempt: the status error arrives wrapped (another interceptor added context with %w)
					lastErr = fmt.Errorf("interceptor: %w", lastErr)
				}
				return lastErr
			}
			lastErr = nil
			return nil
		}
		var gotErr error
		var sameReply bool
		if sc.Grpc == "client" {
			ic := failsafegrpc.NewUnaryClientInterceptorWithExecutor[any](ex)
			var hdr metadata.MD
			gotErr = ic(ctx, "/svc/M", reqArg, replyArg, nil, func(c context.Context, method string, req, reply any, cc *grpc.ClientConn, opts ...grpc.CallOption) error {
				l := check(c, req)
				// the caller's call options reach every attempt
				l["sameArgs"] = l["sameArgs"].(bool) && reply == any(replyArg) && method == "/svc/M" && len(opts) == 1
				lines = append(lines, l)
				return respond()
			}, grpc.Header(&hdr))
			sameReply = true
		} else {
			ic := failsafegrpc.NewUnaryServerInterceptorWithExecutor[any](ex)
			var resp any
			resp, gotErr = ic(ctx, reqArg, &grpc.UnaryServerInfo{FullMethod: "/svc/M"}, func(c context.Context, req any) (any, error) {
				lines = append(lines, check(c, req))
				if err := respond(); err != nil {
					return nil, err
				}
				return replyArg, nil
			})
			sameReply = (gotErr != nil) || resp == any(replyArg)
		}
		time.Sleep(10 * time.Second)
		synctest.Wait()
		live, _ := liveLibraryGoroutines()
		lastRetryable := lastErr != nil && retryable(lastCode)
		lines = append(lines, M{"ev": "GFinal", "attempts": n, "sameReply": sameReply, "sameError": errors.Is(gotErr, lastErr) || gotErr == lastErr,
			"lastRetryable": lastRetryable, "live": live})
	})
	return lines, problem
}

func init() {
	modes["http_scenarios"] = func(t *testing.T) {
		in, err := os.Open(os.Getenv("VH_IN"))
		if err != nil {
			t.Fatal(err)
		}
		out, err := os.Create(os.Getenv("VH_OUT"))
		if err != nil {
			t.Fatal(err)
		}
		w := bufio.NewWriterSize(out, 1<<20)
		scn := bufio.NewScanner(in)
		scn.Buffer(make([]byte, 1<<20), 16<<20)
		var scs []hScenario
		for scn.Scan() {
			var sc hScenario
			if err := json.Unmarshal(scn.Bytes(), &sc); err != nil {
				t.Fatal(err)
			}
			scs = append(scs, sc)
		}
		res := make([][]M, len(scs))
		probs := make([]string, len(scs))
		ch := make(chan int, len(scs))
		for i := range scs {
			ch <- i
		}
		close(ch)
		t.Run("w", func(t *testing.T) {
			for i := 0; i < nWorkers(); i++ {
				t.Run("w", func(t *testing.T) {
					t.Parallel()
					for j := range ch {
						probs[j] = "scenario aborted"
						t.Run("s", func(t *testing.T) {
							if scs[j].Grpc != "" {
								res[j], probs[j] = runGRPCScenario(t, scs[j])
							} else {
								res[j], probs[j] = runHTTPScenario(t, scs[j])
							}
						})
					}
				})
			}
		})
		events, nprob := 0, 0
		for i := range scs {
			if probs[i] != "" {
				nprob++
				emit(M{"k": "problem", "scenario": i, "what": probs[i], "raw": scs[i]})
				continue
			}
			for _, l := range res[i] {
				b, _ := json.Marshal(l)
				w.Write(b)
				w.WriteByte('\n')
			}
			events += len(res[i])
		}
		// outside the bubbles, over the loopback interface: round trippers built WITHOUT an inner transport use the shared default
		// transport, so repeating executions through fresh round trippers reuses its connections instead of piling them up
		if nl := nilInnerLines(); nl != nil {
			for _, l := range nl {
				b, _ := json.Marshal(l)
				w.Write(b)
				w.WriteByte('\n')
			}
			events += len(nl)
		}
		// hedged attempts that ALL answer with a response the hedge policy does not accept: the caller gets one of them, the
		// other one is released (its attempt's context is cancelled, which makes the transport drop the connection)
		if hl := hedgeLoserLines(); hl != nil {
			for _, l := range hl {
				b, _ := json.Marshal(l)
				w.Write(b)
				w.WriteByte('\n')
			}
			events += len(hl)
		}
		w.Flush()
		out.Close()
		var sample any
		if len(res) > 0 {
			sample = res[0]
		}
		emit(M{"k": "summary", "n": len(scs), "events": events, "problems": nprob, "sample": sample})
		_ = fmt.Sprint
	}
}

// hedgeLoserLines: N sequential executions through a hedge policy with a cancel condition (status < 500) against a loopback
// server that answers 503 to both attempts (the first one slowly, so that the hedge fires). Every response the inner transport
// handed out is, in the end, closed by the caller or has a cancelled request context.
func hedgeLoserLines() []M {
	var mu sync.Mutex
	seq := 0
	srv := httptest.NewUnstartedServer(http.HandlerFunc(func(w http.ResponseWriter, r *http.Request) {
		mu.Lock()
		seq++
		first := seq == 1
		mu.Unlock()
		if first {
			time.Sleep(40 * time.Millisecond)
		}
		w.WriteHeader(503)
		w.Write(bytes.Repeat([]byte("x"), 4096))
	}))
	ok := func() (ok bool) {
		defer func() {
			if recover() != nil {
				ok = false
			}
		}()
		srv.Start()
		return true
	}()
	if !ok {
		return nil
	}
	defer srv.Close()
	tr := &http.Transport{}
	defer tr.CloseIdleConnections()
	type handed struct {
		ctx    context.Context
		closed *atomic.Bool
	}
	var all []handed
	inner := roundTripperFunc(func(r *http.Request) (*http.Response, error) {
		resp, err := tr.RoundTrip(r)
		if resp != nil {
			c := new(atomic.Bool)
			resp.Body = &trackedBody{ReadCloser: resp.Body, onClose: func() { c.Store(true) }}
			mu.Lock()
			all = append(all, handed{r.Context(), c})
			mu.Unlock()
		}
		return resp, err
	})
	hp := hedgepolicy.BuilderWithDelay[*http.Response](5 * time.Millisecond).WithMaxHedges(1).
		CancelIf(func(r *http.Response, err error) bool { return r != nil && r.StatusCode < 500 }).Build()
	const n = 6
	done := 0
	for i := 0; i < n; i++ {
		mu.Lock()
		seq = 0
		mu.Unlock()
		client := &http.Client{Transport: failsafehttp.NewRoundTripper(inner, hp)}
		resp, err := client.Get(srv.URL)
		if err != nil {
			continue
		}
		io.Copy(io.Discard, resp.Body)
		resp.Body.Close()
		done++
	}
	time.Sleep(60 * time.Millisecond)
	mu.Lock()
	defer mu.Unlock()
	unreleased := 0
	for _, h := range all {
		if !h.closed.Load() && h.ctx.Err() == nil {
			unreleased++
		}
	}
	sc := M{"bodyKind": "none", "bodySize": 0, "execCtx": "none", "grpc": "", "maxRetries": 0, "method": "GET", "policies": []string{"hedgec"}, "reqCtx": "background",
		"script": []any{}, "via": "hedge-losers"}
	cfg := M{"script": []any{}, "maxRetries": 0, "unitsPerSec": 1, "policies": []string{"hedgec"}, "seekFailFrom": 0}
	return []M{{"ev": "HConfig", "cfg": cfg, "scenario": sc}, {"ev": "HedgeLosers", "executions": done, "responses": len(all), "unreleased": unreleased}}
}

// nilInnerLines runs N sequential requests, each through a NEW failsafe round tripper without an inner transport, against a
// loopback server and reports how many connections the server saw. nil when the loopback interface is unavailable.
func nilInnerLines() []M {
	var mu sync.Mutex
	conns := 0
	srv := httptest.NewUnstartedServer(http.HandlerFunc(func(w http.ResponseWriter, r *http.Request) { w.Write([]byte("ok")) }))
	srv.Config.ConnState = func(c net.Conn, st http.ConnState) {
		if st == http.StateNew {
			mu.Lock()
			conns++
			mu.Unlock()
		}
	}
	ok := func() (ok bool) {
		defer func() {
			if recover() != nil {
				ok = false
			}
		}()
		srv.Start()
		return true
	}()
	if !ok {
		return nil
	}
	defer srv.Close()
	const n = 8
	done := 0
	for i := 0; i < n; i++ {
		client := &http.Client{Transport: failsafehttp.NewRoundTripper(nil, failsafehttp.RetryPolicyBuilder().Build())}
		resp, err := client.Get(srv.URL)
		if err != nil {
			continue
		}
		io.Copy(io.Discard, resp.Body)
		resp.Body.Close()
		done++
	}
	http.DefaultTransport.(*http.Transport).CloseIdleConnections()
	mu.Lock()
	defer mu.Unlock()
	sc := M{"bodyKind": "none", "bodySize": 0, "execCtx": "none", "grpc": "", "maxRetries": 2, "method": "GET", "policies": []string{"retryx"}, "reqCtx": "background",
		"script": []any{}, "via": "nil-inner"}
	cfg := M{"script": []any{}, "maxRetries": 2, "unitsPerSec": 1, "policies": []string{"retryx"}, "seekFailFrom": 0}
	return []M{{"ev": "HConfig", "cfg": cfg, "scenario": sc}, {"ev": "NilInner", "executions": done, "conns": conns}}
}
