package vh

import (
	"bufio"
	"context"
	"encoding/json"
	"os"
	"regexp"
	"runtime"
	"strings"
	"sync"
	"testing"
	"testing/synctest"
	"time"

	"github.com/failsafe-go/failsafe-go"
)

// ---- timed, threaded scenarios (specs/FailsafeT.tla): run on the real library, recorded as NDJSON traces ----

type tFn struct {
	D    int64  `json:"d"`
	R    string `json:"r"`
	E    term   `json:"e"`
	Coop bool   `json:"coop"`
}

type tEnv struct {
	At    int64  `json:"at"`
	What  string `json:"what"`
	X     int    `json:"x"`
	Async bool   `json:"async"`
	Id    string `json:"id"`
}

type tScenario struct {
	Stack     []desc         `json:"stack"`
	Fns       [][]tFn        `json:"fns"`
	FnDefault tFn            `json:"fnDefault"`
	Env       []tEnv         `json:"env"`
	Nx        int            `json:"nx"`
	Tld       int64          `json:"tld"`
	AsyncFix  bool           `json:"asyncFix"`
	Bhmax     map[string]int `json:"bhmax"`
	UnitNs    int64          `json:"unit_ns"`
	Grace     int64          `json:"grace"`
}

var errCoop = &coopErr{}

type coopErr struct{}

func (*coopErr) Error() string { return "ECoop: function observed the cancellation" }

var bubbleRe = regexp.MustCompile(`synctest bubble (\d+)`)

// liveLibraryGoroutines counts goroutines of the current bubble (other than the caller) that have a failsafe-go frame.
func liveLibraryGoroutines() (int, []string) {
	buf := make([]byte, 1<<20)
	for {
		n := runtime.Stack(buf, true)
		if n < len(buf) {
			buf = buf[:n]
			break
		}
		buf = make([]byte, 2*len(buf))
	}
	gs := strings.Split(string(buf), "\n\n")
	mine := ""
	if m := bubbleRe.FindStringSubmatch(gs[0]); m != nil {
		mine = m[1]
	}
	cnt := 0
	var stacks []string
	for _, g := range gs[1:] {
		m := bubbleRe.FindStringSubmatch(strings.SplitN(g, "\n", 2)[0])
		if m == nil || m[1] != mine {
			continue
		}
		if strings.Contains(g, "github.com/failsafe-go/failsafe-go") {
			cnt++
			if len(stacks) < 3 {
				stacks = append(stacks, g)
			}
		}
	}
	return cnt, stacks
}

func runTScenario(t *testing.T, raw []byte) (lines []M, problem string) {
	var sc tScenario
	if err := json.Unmarshal(raw, &sc); err != nil {
		return nil, "bad scenario: " + err.Error()
	}
	unit := time.Duration(sc.UnitNs)
	if unit == 0 {
		unit = time.Millisecond
	}
	var cfgAny map[string]any
	json.Unmarshal(raw, &cfgAny)
	delete(cfgAny, "unit_ns")
	delete(cfgAny, "grace")
	func() {
		defer func() {
			if r := recover(); r != nil {
				problem = "panic: " + strings.SplitN(strings.TrimSpace(toString(r)), "\n", 2)[0]
			}
		}()
		synctest.Test(t, func(t *testing.T) {
			rec := &recorder{unit: unit, tmode: true, t0: time.Now(), tld: time.Duration(sc.Tld) * unit}
			rec.lines = append(rec.lines, M{"ev": "Config", "cfg": cfgAny, "t": 0})
			bs := buildStack(sc.Stack, unit, rec)
			calls := make([]int, sc.Nx+1)
			fn := func(exec failsafe.Execution[string]) (string, error) {
				x := xOf(exec.Context())
				rec.mu.Lock()
				calls[x]++
				k := calls[x]
				rec.lines = append(rec.lines, M{"ev": "FnStart", "x": x, "L": len(sc.Stack) + 1, "k": k, "t": rec.vnow(),
					"att": exec.Attempts(), "exe": exec.Executions(), "ret": exec.Retries(), "hdg": exec.Hedges(),
					"lr": resName(exec.LastResult()), "le": projectErrT(exec.LastError()), "hedge": exec.IsHedge(), "canceled": exec.IsCanceled()})
				rec.mu.Unlock()
				f := sc.FnDefault
				if x-1 < len(sc.Fns) && k <= len(sc.Fns[x-1]) {
					f = sc.Fns[x-1][k-1]
				}
				d := time.Duration(f.D) * unit
				early := false
				if f.Coop {
					tm := time.NewTimer(d)
					select {
					case <-tm.C:
					case <-exec.Canceled():
						tm.Stop()
						early = true
					}
				} else if d > 0 {
					time.Sleep(d)
				}
				if early {
					rec.tline(M{"ev": "FnEnd", "x": x, "k": k, "r": "R0", "e": term{Op: "ECoop", Ch: []term{}}, "canceled": exec.IsCanceled()}, nil)
					return "", errCoop
				}
				rec.tline(M{"ev": "FnEnd", "x": x, "k": k, "r": f.R, "e": f.E, "canceled": exec.IsCanceled()}, nil)
				return mkString(f.R), buildErrX(f.E)
			}
			cancels := map[int]context.CancelFunc{}
			results := map[int]failsafe.ExecutionResult[string]{}
			var wg sync.WaitGroup
			for _, e := range sc.Env {
				if d := time.Duration(e.At)*unit - time.Since(rec.t0); d > 0 {
					time.Sleep(d)
				}
				switch e.What {
				case "Start":
					ctx, cancel := context.WithCancel(context.WithValue(context.Background(), xKey, e.X))
					cancels[e.X] = cancel
					ex := failsafe.NewExecutor[string](bs.policies...).WithContext(ctx).
						OnSuccess(func(ev failsafe.ExecutionDoneEvent[string]) { rec.info("ExecOnSuccess", 0, ev, ev.Result, ev.Error, nil) }).
						OnFailure(func(ev failsafe.ExecutionDoneEvent[string]) { rec.info("ExecOnFailure", 0, ev, ev.Result, ev.Error, nil) }).
						OnDone(func(ev failsafe.ExecutionDoneEvent[string]) { rec.info("ExecOnDone", 0, ev, ev.Result, ev.Error, nil) })
					x := e.X
					rec.tline(M{"ev": "Start", "x": x}, nil)
					wg.Add(1)
					if e.Async {
						er := ex.GetWithExecutionAsync(fn)
						results[x] = er
						go func() {
							defer wg.Done()
							r, err := er.Get()
							rec.tline(M{"ev": "Return", "x": x, "r": resName(r), "e": projectErrT(err)}, nil)
						}()
					} else {
						go func() {
							defer wg.Done()
							r, err := ex.GetWithExecution(fn)
							rec.tline(M{"ev": "Return", "x": x, "r": resName(r), "e": projectErrT(err)}, nil)
						}()
					}
				case "CtxCancel":
					rec.tline(M{"ev": "CtxCancel", "x": e.X}, nil)
					cancels[e.X]()
					rec.tline(M{"ev": "CancelRet", "x": e.X}, nil)
				case "AsyncCancel":
					rec.tline(M{"ev": "AsyncCancel", "x": e.X}, nil)
					results[e.X].Cancel()
					rec.tline(M{"ev": "CancelRet", "x": e.X}, nil)
				case "BhTake":
					ok := bs.bulks[e.Id].TryAcquirePermit()
					rec.tline(M{"ev": "BhTake", "id": e.Id, "ok": ok}, nil)
				case "BhRelease":
					bs.bulks[e.Id].ReleasePermit()
					rec.tline(M{"ev": "BhRelease", "id": e.Id}, nil)
				}
			}
			wg.Wait()
			grace := sc.Grace
			if grace == 0 {
				grace = 100000
			}
			time.Sleep(time.Duration(grace) * unit)
			synctest.Wait()
			live, stacks := liveLibraryGoroutines()
			used := M{}
			for id, max := range sc.Bhmax {
				free := 0
				for bs.bulks[id].TryAcquirePermit() {
					free++
				}
				for i := 0; i < free; i++ {
					bs.bulks[id].ReleasePermit()
				}
				used[id] = max - free
			}
			q := M{"ev": "Quiesce", "live": live, "used": used}
			if live > 0 {
				q["stacks"] = stacks
			}
			rec.tline(q, nil)
			for _, c := range cancels {
				c()
			}
			lines = rec.lines
		})
	}()
	return lines, problem
}

func toString(v any) string {
	switch x := v.(type) {
	case string:
		return x
	case error:
		return x.Error()
	}
	b, _ := json.Marshal(v)
	return string(b)
}

// projectErrT: like projectErr, plus the cooperating function's own error
func projectErrT(err error) term {
	if err == errCoop {
		return term{Op: "ECoop", Ch: []term{}}
	}
	return projectErr(err)
}

func init() {
	// reads scenarios (JSON lines) from VH_IN, writes the concatenated traces to VH_OUT
	modes["tscen"] = func(t *testing.T) {
		in, err := os.Open(os.Getenv("VH_IN"))
		if err != nil {
			t.Fatal(err)
		}
		out, err := os.Create(os.Getenv("VH_OUT"))
		if err != nil {
			t.Fatal(err)
		}
		w := bufio.NewWriterSize(out, 1<<20)
		sc := bufio.NewScanner(in)
		sc.Buffer(make([]byte, 1<<20), 16<<20)
		type job struct {
			idx int
			raw []byte
		}
		var jobs []job
		for sc.Scan() {
			jobs = append(jobs, job{len(jobs), append([]byte(nil), sc.Bytes()...)})
		}
		res := make([][]M, len(jobs))
		probs := make([]string, len(jobs))
		ch := make(chan job, len(jobs))
		for _, j := range jobs {
			ch <- j
		}
		close(ch)
		t.Run("w", func(t *testing.T) {
			for i := 0; i < nWorkers(); i++ {
				t.Run("w", func(t *testing.T) {
					t.Parallel()
					for j := range ch {
						res[j.idx], probs[j.idx] = runTScenario(t, j.raw)
					}
				})
			}
		})
		events, nprob := 0, 0
		var firstLine []int
		line := 1
		for i := range jobs {
			if probs[i] != "" {
				nprob++
				emit(M{"k": "problem", "scenario": i, "what": probs[i], "raw": json.RawMessage(jobs[i].raw)})
				continue
			}
			firstLine = append(firstLine, line)
			for _, l := range res[i] {
				b, _ := json.Marshal(l)
				w.Write(b)
				w.WriteByte('\n')
				line++
			}
			events += len(res[i])
		}
		w.Flush()
		out.Close()
		var sample any
		if len(res) > 0 {
			sample = res[0]
		}
		emit(M{"k": "summary", "n": len(jobs), "events": events, "problems": nprob, "sample": sample})
	}
}
