package vh

import (
	"bufio"
	"context"
	"encoding/json"
	"errors"
	"fmt"
	"github.com/failsafe-go/failsafe-go/cachepolicy"
	"os"
	"regexp"
	"runtime"
	"sort"
	"strings"
	"sync"
	"testing"
	"testing/synctest"
	"time"

	"github.com/failsafe-go/failsafe-go"
)

// ---- timed, threaded scenarios (specs/FailsafeT.tla): run on the real library, recorded as NDJSON traces ----

type tFn struct {
	D    int64  `json:"d"`
	R    string `json:"r"`
	E    term   `json:"e"`
	Coop bool   `json:"coop"`
}

type tEnv struct {
	At    int64  `json:"at"`
	What  string `json:"what"`
	X     int    `json:"x"`
	Async bool   `json:"async"`
	Id    string `json:"id"`
	Gap   int64  `json:"gap"` // AsyncCancel: hold the canceller between the two halves of Cancel for this long (hook)
	Dl    *int64 `json:"dl"`  // Start: the caller's context has a deadline at this instant (absent or -1: none)
	Ck    string `json:"ck"`  // Start: cache key carried by the caller's context ("" or "none": none)
}

var errCause = errors.New("application-level cause of the cancellation")

// gates for the "asyncCancel.mid" hook: ExecutionResult -> how long to hold the canceller
var cancelGaps sync.Map

func init() {
	failsafe.VerifHook = func(point string, subject any) {
		if point != "asyncCancel.mid" {
			return
		}
		if d, ok := cancelGaps.Load(subject); ok && d.(time.Duration) > 0 {
			time.Sleep(d.(time.Duration))
		}
	}
}

type tScenario struct {
	Stack     []desc         `json:"stack"`
	Fns       [][]tFn        `json:"fns"`
	FnDefault tFn            `json:"fnDefault"`
	Env       []tEnv         `json:"env"`
	Nx        int            `json:"nx"`
	Tld       int64          `json:"tld"`
	AsyncFix  bool           `json:"asyncFix"`
	Bhmax     map[string]int `json:"bhmax"`
	UnitNs    int64          `json:"unit_ns"`
	Grace     int64          `json:"grace"`
	Readers   bool           `json:"readers"`
	Alt       int            `json:"alt"`
	NoCtx     bool           `json:"noctx"` // the executions run one after the other on ONE executor, without WithContext
}

var errCoop = &coopErr{}

type coopErr struct{}

func (*coopErr) Error() string { return "ECoop: function observed the cancellation" }

var bubbleRe = regexp.MustCompile(`synctest bubble (\d+)`)

// liveLibraryGoroutines counts goroutines of the current bubble (other than the caller) that have a failsafe-go frame.
func liveLibraryGoroutines() (int, []string) {
	buf := make([]byte, 1<<20)
	for {
		n := runtime.Stack(buf, true)
		if n < len(buf) {
			buf = buf[:n]
			break
		}
		buf = make([]byte, 2*len(buf))
	}
	gs := strings.Split(string(buf), "\n\n")
	mine := ""
	if m := bubbleRe.FindStringSubmatch(gs[0]); m != nil {
		mine = m[1]
	}
	cnt := 0
	var stacks []string
	for _, g := range gs[1:] {
		m := bubbleRe.FindStringSubmatch(strings.SplitN(g, "\n", 2)[0])
		if m == nil || m[1] != mine {
			continue
		}
		if strings.Contains(g, "github.com/failsafe-go/failsafe-go") {
			cnt++
			if len(stacks) < 3 {
				stacks = append(stacks, g)
			}
		}
	}
	return cnt, stacks
}

func runTScenario(t *testing.T, raw []byte) (lines []M, problem string) {
	var sc tScenario
	if err := json.Unmarshal(raw, &sc); err != nil {
		return nil, "bad scenario: " + err.Error()
	}
	unit := time.Duration(sc.UnitNs)
	if unit == 0 {
		unit = time.Millisecond
	}
	var cfgAny map[string]any
	json.Unmarshal(raw, &cfgAny)
	delete(cfgAny, "unit_ns")
	delete(cfgAny, "grace")
	delete(cfgAny, "readers")
	delete(cfgAny, "alt")
	delete(cfgAny, "noctx")
	func() {
		defer func() {
			if r := recover(); r != nil {
				problem = "panic: " + strings.SplitN(strings.TrimSpace(toString(r)), "\n", 2)[0]
			}
		}()
		synctest.Test(t, func(t *testing.T) {
			rec := &recorder{unit: unit, tmode: true, t0: time.Now(), tld: time.Duration(sc.Tld) * unit, alt: sc.Alt}
			rec.lines = append(rec.lines, M{"ev": "Config", "cfg": cfgAny, "t": 0})
			bs := buildStack(sc.Stack, unit, rec)
			calls := make([]int, sc.Nx+1)
			callExecs := make([][]failsafe.Execution[string], sc.Nx+1) // the execution each invocation was given (kept to look at its context afterwards)
			fn := func(exec failsafe.Execution[string]) (string, error) {
				x := rec.xOf(exec.Context())
				rec.mu.Lock()
				calls[x]++
				k := calls[x]
				callExecs[x] = append(callExecs[x], exec)
				// double collect of everything the line reports (counters are shared atomics; LastError() and IsCanceled()
				// depend on the context): two identical consecutive collects are a snapshot of one instant
				att, exe, ret, hdg := stableCounters(exec)
				le, canc := exec.LastError(), exec.IsCanceled()
				first, retry := exec.IsFirstAttempt(), exec.IsRetry()
				for i := 0; i < 100; i++ {
					att2, exe2, ret2, hdg2 := stableCounters(exec)
					le2, canc2 := exec.LastError(), exec.IsCanceled()
					first2, retry2 := exec.IsFirstAttempt(), exec.IsRetry()
					same := att2 == att && exe2 == exe && ret2 == ret && hdg2 == hdg && le2 == le && canc2 == canc && first2 == first && retry2 == retry
					att, exe, ret, hdg, le, canc, first, retry = att2, exe2, ret2, hdg2, le2, canc2, first2, retry2
					if same {
						break
					}
				}
				rec.lines = append(rec.lines, M{"ev": "FnStart", "x": x, "L": len(sc.Stack) + 1, "k": k, "t": rec.vnow(),
					"att": att, "exe": exe, "ret": ret, "hdg": hdg, "st": int64(exec.StartTime().Sub(rec.t0) / unit), "el": int64(exec.ElapsedTime() / unit),
					"ast": int64(exec.AttemptStartTime().Sub(rec.t0) / unit), "ael": int64(exec.ElapsedAttemptTime() / unit),
					"first": first, "retry": retry, "ishedge": exec.IsHedge(),
					"lr": resName(exec.LastResult()), "le": projectErrT(le), "hedge": exec.IsHedge(), "canceled": canc})
				rec.mu.Unlock()
				f := sc.FnDefault
				if x >= 1 && x-1 < len(sc.Fns) && k <= len(sc.Fns[x-1]) { // (x = 0: an invocation under a context that is not the execution's own)
					f = sc.Fns[x-1][k-1]
				}
				d := time.Duration(f.D) * unit
				early := false
				if f.Coop {
					tm := time.NewTimer(d)
					select {
					case <-tm.C:
					case <-exec.Canceled():
						tm.Stop()
						early = true
					}
				} else if d > 0 {
					time.Sleep(d)
				}
				// the observation and the log line are taken in one critical section of the recorder
				rec.mu.Lock()
				le2, canc2 := exec.LastError(), exec.IsCanceled()
				for i := 0; i < 100; i++ {
					a, b := exec.LastError(), exec.IsCanceled()
					if a == le2 && b == canc2 {
						break
					}
					le2, canc2 = a, b
				}
				endLine := M{"ev": "FnEnd", "x": x, "k": k, "r": f.R, "e": f.E, "canceled": canc2, "t": rec.vnow(), "lr": resName(exec.LastResult()), "le": projectErrT(le2)}
				if early {
					endLine["r"], endLine["e"] = "R0", term{Op: "ECoop", Ch: []term{}}
				}
				rec.lines = append(rec.lines, endLine)
				rec.mu.Unlock()
				if early {
					return "", errCoop
				}
				return mkString(f.R), buildErrX(f.E)
			}
			// env entries with id "in:<Event>" are performed by user code itself: the first listener call <Event> of execution x calls
			// ExecutionResult.Cancel() / cancels the context before it returns (Cancel from OnFailure, a HandleIf predicate, ...)
			inline := map[string]tEnv{}
			for _, e := range sc.Env {
				if strings.HasPrefix(e.Id, "in:") {
					inline[fmt.Sprintf("%s/%d", e.Id[3:], e.X)] = e
				}
			}
			var inlineMu sync.Mutex
			cancels := map[int]context.CancelFunc{}
			acqCancels := map[int]context.CancelFunc{}
			results := map[int]failsafe.ExecutionResult[string]{}
			rec.after = func(name string, x int) {
				inlineMu.Lock()
				e, ok := inline[fmt.Sprintf("%s/%d", name, x)]
				delete(inline, fmt.Sprintf("%s/%d", name, x))
				inlineMu.Unlock()
				if !ok {
					return
				}
				rec.tline(M{"ev": e.What, "x": x}, nil)
				if e.What == "AsyncCancel" {
					results[x].Cancel()
				} else {
					cancels[x]()
				}
				rec.tline(M{"ev": "CancelRet", "x": x}, nil)
			}
			var wg sync.WaitGroup
			var sharedEx failsafe.Executor[string]
			for _, e := range sc.Env {
				if d := time.Duration(e.At)*unit - time.Since(rec.t0); d > 0 {
					time.Sleep(d)
				}
				switch e.What {
				case "Start":
					base := context.WithValue(context.Background(), xKey, e.X)
					if e.Ck != "" && e.Ck != "none" {
						base = context.WithValue(base, cachepolicy.CacheKey, e.Ck)
					}
					// (cancelled WITH a cause: what the library reports is the context's error, never the application's cause)
					cctx, ccancel := context.WithCancelCause(base)
					ctx, cancel := context.Context(cctx), context.CancelFunc(func() { ccancel(errCause) })
					if e.Dl != nil && *e.Dl >= 0 {
						// the caller's context carries a deadline (a timer of the runtime fires it)
						ctx, cancel = context.WithDeadline(ctx, rec.t0.Add(time.Duration(*e.Dl)*unit))
					}
					cancels[e.X] = cancel
					if e.Id == "precanceled" {
						cancel() // the caller's context is already done when the execution starts
					}
					ex := failsafe.NewExecutor[string](bs.policies...)
					if rec.alt&2 == 0 {
						ex = ex.WithContext(ctx) // (alt&2: the context is attached after the listeners)
					}
					ex = ex.
						OnSuccess(func(ev failsafe.ExecutionDoneEvent[string]) {
							rec.info("ExecOnSuccess", 0, ev, ev.Result, ev.Error, nil)
						}).
						OnFailure(func(ev failsafe.ExecutionDoneEvent[string]) {
							rec.info("ExecOnFailure", 0, ev, ev.Result, ev.Error, nil)
						}).
						OnDone(func(ev failsafe.ExecutionDoneEvent[string]) { rec.info("ExecOnDone", 0, ev, ev.Result, ev.Error, nil) })
					if rec.alt&2 != 0 {
						ex = ex.WithContext(ctx).WithContext(nil)
					}
					if rec.alt&1 != 0 {
						_ = ex.WithContext(decoyCtx()) // WithContext returns a copy: the executor it was called on keeps its own context
					}
					x := e.X
					if sc.NoCtx {
						// one executor for every execution of the scenario, no context of its own per execution
						if sharedEx == nil {
							sharedEx = failsafe.NewExecutor[string](bs.policies...).
								OnSuccess(func(ev failsafe.ExecutionDoneEvent[string]) {
									rec.info("ExecOnSuccess", 0, ev, ev.Result, ev.Error, nil)
								}).
								OnFailure(func(ev failsafe.ExecutionDoneEvent[string]) {
									rec.info("ExecOnFailure", 0, ev, ev.Result, ev.Error, nil)
								}).
								OnDone(func(ev failsafe.ExecutionDoneEvent[string]) { rec.info("ExecOnDone", 0, ev, ev.Result, ev.Error, nil) })
						}
						ex = sharedEx
						rec.curX.Store(int32(x))
					}
					rec.tline(M{"ev": "Start", "x": x}, nil)
					wg.Add(1)
					if e.Async {
						er := ex.GetWithExecutionAsync(fn)
						results[x] = er
						go func() {
							defer wg.Done()
							r, err := er.Get()
							rec.tline(M{"ev": "Return", "x": x, "r": resName(r), "e": projectErrT(err)}, nil)
						}()
						if sc.Readers {
							// reader A polls IsDone every unit, then Gets; reader B waits on Done(), checks IsDone, Gets
							wg.Add(2)
							go func() {
								defer wg.Done()
								for i := 0; i < 1000; i++ {
									var v bool
									rec.tlineF(func() M { v = er.IsDone(); return M{"ev": "IsDone", "x": x, "v": v} }, nil)
									if v {
										break
									}
									time.Sleep(unit)
								}
								r, err := er.Get() // (never block while holding the recorder)
								rec.tline(M{"ev": "GetRet", "x": x, "r": resName(r), "e": projectErrT(err)}, nil)
							}()
							go func() {
								defer wg.Done()
								<-er.Done()
								rec.tline(M{"ev": "DoneClosed", "x": x}, nil)
								rec.tlineF(func() M { return M{"ev": "IsDone", "x": x, "v": er.IsDone()} }, nil)
								r, err := er.Result(), er.Error()
								rec.tline(M{"ev": "GetRet", "x": x, "r": resName(r), "e": projectErrT(err)}, nil)
							}()
						}
					} else {
						go func() {
							defer wg.Done()
							r, err := ex.GetWithExecution(fn)
							rec.tline(M{"ev": "Return", "x": x, "r": resName(r), "e": projectErrT(err)}, nil)
						}()
					}
				case "CtxCancel":
					if strings.HasPrefix(e.Id, "in:") {
						continue
					}
					// the canceller is its own goroutine (the controller goes on with the script)
					rec.tline(M{"ev": "CtxCancel", "x": e.X}, nil)
					wg.Add(1)
					cf := cancels[e.X]
					go func(x int) {
						defer wg.Done()
						cf()
						rec.tline(M{"ev": "CancelRet", "x": x}, nil)
					}(e.X)
				case "AsyncCancel":
					if strings.HasPrefix(e.Id, "in:") {
						continue // performed from inside a listener (see rec.after), not by the controller
					}
					rec.tline(M{"ev": "AsyncCancel", "x": e.X}, nil)
					er := results[e.X]
					if e.Gap > 0 {
						cancelGaps.Store(any(er), time.Duration(e.Gap)*unit)
					}
					wg.Add(1)
					go func(x int) {
						defer wg.Done()
						er.Cancel()
						cancelGaps.Delete(any(er))
						rec.tline(M{"ev": "CancelRet", "x": x}, nil)
					}(e.X)
				case "BhAcquire":
					actx, acancel := context.WithCancel(context.Background())
					acqCancels[e.X] = acancel
					rec.tline(M{"ev": "BhAcquireCall", "id": e.Id, "w": e.X}, nil)
					wg.Add(1)
					go func(w int, id string) {
						defer wg.Done()
						err := bs.bulks[id].AcquirePermit(actx)
						rec.tline(M{"ev": "BhAcquired", "w": w, "ok": err == nil}, nil)
					}(e.X, e.Id)
				case "BhAcqCancel":
					rec.tline(M{"ev": "BhAcqCancel", "w": e.X}, nil)
					acqCancels[e.X]()
				case "BhTake":
					rec.tline(M{"ev": "BhTakeCall", "id": e.Id}, nil)
					ok := bs.bulks[e.Id].TryAcquirePermit()
					rec.tline(M{"ev": "BhTake", "id": e.Id, "ok": ok}, nil)
				case "BhRelease":
					rec.tline(M{"ev": "BhReleaseCall", "id": e.Id}, nil)
					bs.bulks[e.Id].ReleasePermit()
				case "CbOpen", "CbHalfOpen", "CbClose":
					rec.tline(M{"ev": e.What + "Call", "id": e.Id}, nil)
					switch e.What {
					case "CbOpen":
						bs.breakers[e.Id].Open()
					case "CbHalfOpen":
						bs.breakers[e.Id].HalfOpen()
					case "CbClose":
						bs.breakers[e.Id].Close()
					}
					rec.tline(M{"ev": "CbRet", "id": e.Id}, nil)
				}
			}
			wg.Wait()
			grace := sc.Grace
			if grace == 0 {
				grace = 100000
			}
			time.Sleep(time.Duration(grace) * unit)
			synctest.Wait()
			live, stacks := liveLibraryGoroutines()
			used := M{}
			for id, max := range sc.Bhmax {
				free := 0
				for bs.bulks[id].TryAcquirePermit() {
					free++
				}
				for i := 0; i < free; i++ {
					bs.bulks[id].ReleasePermit()
				}
				used[id] = max - free
			}
			cbs := M{}
			for id, cb := range bs.breakers {
				st := stateName(cb.State())
				permits := -1
				if st == "halfopen" {
					permits = 0
					for cb.TryAcquirePermit() {
						permits++
						if permits > 100 {
							break
						}
					}
				}
				cbs[id] = M{"state": st, "permits": permits}
			}
			ctxs := make([][]bool, sc.Nx)
			for x := 1; x <= sc.Nx; x++ {
				ctxs[x-1] = []bool{}
				for _, e := range callExecs[x] {
					ctxs[x-1] = append(ctxs[x-1], e.IsCanceled())
				}
			}
			caches := M{}
			for id, c := range bs.caches {
				ents := []M{}
				for k, v := range c.m {
					ents = append(ents, M{"k": k, "v": resName(v)})
				}
				sort.Slice(ents, func(a, b int) bool { return ents[a]["k"].(string) < ents[b]["k"].(string) })
				caches[id] = ents
			}
			q := M{"ev": "Quiesce", "live": live, "used": used, "cb": cbs, "ctxs": ctxs, "caches": caches}
			if live > 0 {
				q["stacks"] = stacks
			}
			rec.tline(q, nil)
			for _, c := range cancels {
				c()
			}
			lines = rec.lines
		})
	}()
	return lines, problem
}

func toString(v any) string {
	switch x := v.(type) {
	case string:
		return x
	case error:
		return x.Error()
	}
	b, _ := json.Marshal(v)
	return string(b)
}

// projectErrT: like projectErr, plus the cooperating function's own error
func projectErrT(err error) term {
	if err == errCoop {
		return term{Op: "ECoop", Ch: []term{}}
	}
	return projectErr(err)
}

func init() {
	// reads scenarios (JSON lines) from VH_IN, writes the concatenated traces to VH_OUT
	modes["tscen"] = func(t *testing.T) {
		in, err := os.Open(os.Getenv("VH_IN"))
		if err != nil {
			t.Fatal(err)
		}
		out, err := os.Create(os.Getenv("VH_OUT"))
		if err != nil {
			t.Fatal(err)
		}
		w := bufio.NewWriterSize(out, 1<<20)
		sc := bufio.NewScanner(in)
		sc.Buffer(make([]byte, 1<<20), 16<<20)
		type job struct {
			idx int
			raw []byte
		}
		var jobs []job
		for sc.Scan() {
			jobs = append(jobs, job{len(jobs), append([]byte(nil), sc.Bytes()...)})
		}
		res := make([][]M, len(jobs))
		probs := make([]string, len(jobs))
		ch := make(chan job, len(jobs))
		for _, j := range jobs {
			ch <- j
		}
		close(ch)
		t.Run("w", func(t *testing.T) {
			for i := 0; i < nWorkers(); i++ {
				t.Run("w", func(t *testing.T) {
					t.Parallel()
					for j := range ch {
						// its own subtest: a failure inside (e.g. the race detector marking the test failed) ends only this scenario
						probs[j.idx] = "scenario aborted (test failed inside the bubble)"
						t.Run("s", func(t *testing.T) {
							res[j.idx], probs[j.idx] = runTScenario(t, j.raw)
						})
					}
				})
			}
		})
		events, nprob := 0, 0
		var firstLine []int
		line := 1
		for i := range jobs {
			if probs[i] != "" {
				nprob++
				emit(M{"k": "problem", "scenario": i, "what": probs[i], "raw": json.RawMessage(jobs[i].raw)})
				continue
			}
			firstLine = append(firstLine, line)
			for _, l := range res[i] {
				b, _ := json.Marshal(l)
				w.Write(b)
				w.WriteByte('\n')
				line++
			}
			events += len(res[i])
		}
		w.Flush()
		out.Close()
		var sample any
		if len(res) > 0 {
			sample = res[0]
		}
		emit(M{"k": "summary", "n": len(jobs), "events": events, "problems": nprob, "sample": sample})
	}
}
