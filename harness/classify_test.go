package vh

import (
	"encoding/json"
	"errors"
	"fmt"
	"reflect"
	"sort"
	"strings"
	"sync/atomic"
	"testing"
	"testing/synctest"
	"time"

	"github.com/failsafe-go/failsafe-go"
	"github.com/failsafe-go/failsafe-go/circuitbreaker"
	"github.com/failsafe-go/failsafe-go/fallback"
	"github.com/failsafe-go/failsafe-go/hedgepolicy"
	"github.com/failsafe-go/failsafe-go/retrypolicy"
)

// ---- error terms (specs/Classify.tla) ----

type term struct {
	Op string `json:"op"`
	Ch []term `json:"ch"`
}

var (
	errE1 = errors.New("E1")
	errE2 = errors.New("E2")
	errE3 = errors.New("E3")
)

type TV struct{ N int }  // value receiver
func (TV) Error() string { return "TV" }

// TX has the same underlying representation as TV and is a different type: never matched by a TV registration
type TX struct{ N int }

func (TX) Error() string { return "TX" }

type TP struct{ N int }   // pointer receiver
func (*TP) Error() string { return "TP" }

// multiErr is a hand-written multi-error (Unwrap() []error) that may hold nil slots
type multiErr struct{ es []error }

func (m *multiErr) Error() string   { return "multiErr" }
func (m *multiErr) Unwrap() []error { return m.es }

type WT struct{ Err error } // custom wrapping type
func (w WT) Error() string  { return "WT(" + w.Err.Error() + ")" }
func (w WT) Unwrap() error  { return w.Err }

func buildErr(t term) error {
	switch t.Op {
	case "nil":
		return nil
	case "E1":
		return errE1
	case "E2":
		return errE2
	case "E3":
		return errE3
	case "TV":
		return TV{7}
	case "TP":
		return &TP{7}
	case "TX":
		return TX{7}
	case "W":
		return fmt.Errorf("w: %w", buildErr(t.Ch[0]))
	case "WT":
		return WT{buildErr(t.Ch[0])}
	case "J":
		return errors.Join(buildErr(t.Ch[0]), buildErr(t.Ch[1]))
	case "JN":
		return &multiErr{[]error{nil, buildErr(t.Ch[0])}}
	}
	panic("unknown term op " + t.Op)
}

func (t term) String() string {
	if len(t.Ch) == 0 {
		return t.Op
	}
	parts := make([]string, len(t.Ch))
	for i, c := range t.Ch {
		parts[i] = c.String()
	}
	return t.Op + "(" + strings.Join(parts, ",") + ")"
}

type cond struct {
	T string `json:"t"`
	V string `json:"v"`
}

type classRow struct {
	Conds  []cond `json:"conds"`
	R      string `json:"r"`
	E      term   `json:"e"`
	Fail   bool   `json:"fail"`
	Abort  string `json:"abort"`
	Cancel string `json:"cancel"`
}

// result codecs: the same abstract results R0 (zero value), R1, R2 in two Go types
func mkString(n string) string {
	if n == "R0" {
		return ""
	}
	return n
}
func mkSlice(n string) []int {
	switch n {
	case "R0":
		return nil
	case "R1":
		return []int{1}
	}
	return []int{2, 2}
}

// a comparable result type for which == and deep equality differ: every mkPtr call makes a fresh pointer
type box struct {
	V   int
	Sub *int
}

func mkPtr(n string) *box {
	switch n {
	case "R0":
		return nil
	case "R1":
		one := 1
		return &box{V: 1, Sub: &one}
	}
	two := 2
	return &box{V: 2, Sub: &two}
}

type condSink[R any] interface {
	errs(...error)
	types(...any)
	result(R)
	pred(func(R, error) bool)
}

// altTargets: register error types through the other documented spelling of the target (pointer instead of value and
// vice versa): HandleErrorTypes(T{}) and HandleErrorTypes(&T{}) mean the same type
var altTargets bool
var emptyCalls atomic.Int64

func applyConds[R any](cs []cond, mk func(string) R, onErrs func(...error), onTypes func(...any), onResult func(R), onIf func(func(R, error) bool)) {
	// registrations of one kind go through ONE variadic call, as users write HandleErrors(a, b) / HandleErrorTypes(A{}, B{})
	var errs []error
	var types []any
	for _, c := range cs {
		switch c.T {
		case "errors":
			errs = append(errs, map[string]error{"E1": errE1, "E2": errE2, "E3": errE3}[c.V])
		case "types":
			switch c.V {
			case "TV":
				if altTargets {
					types = append(types, &TV{})
				} else {
					types = append(types, TV{})
				}
			case "TP":
				if altTargets {
					types = append(types, TP{})
				} else {
					types = append(types, &TP{})
				}
			case "WT":
				if altTargets {
					types = append(types, &WT{})
				} else {
					types = append(types, WT{})
				}
			}
		}
	}
	regErrs := func() {
		if len(errs) > 0 {
			onErrs(errs...)
			for i := range errs {
				errs[i] = errors.New("overwritten after the registration") // the caller reuses its slice: the registration keeps what it was given
			}
		}
	}
	// (every other call registers the errors LAST: no registration replaces an earlier one)
	errsLast := emptyCalls.Add(1)%2 == 0
	if !errsLast {
		regErrs()
	}
	if len(types) > 0 {
		onTypes(types...)
		for i := range types {
			types[i] = struct{ X int }{}
		}
	}
	// a registration call that registers nothing (an empty variadic, as in HandleErrors(cfg.Errors...) with nothing configured)
	// changes nothing; made only when an error-inspecting condition is configured anyway, after the real registrations
	if altTargets && (len(errs) > 0 || len(types) > 0) {
		switch emptyCalls.Add(1) % 3 {
		case 0:
			onErrs()
		case 1:
			onTypes()
		}
	}
	// ... and when NOTHING is configured, an empty registration call still configures nothing (the default rule applies)
	if altTargets && len(cs) == 0 && emptyCalls.Add(1)%2 == 0 {
		onErrs()
	}
	for _, c := range cs {
		switch c.T {
		case "result":
			onResult(mk(c.V))
		case "if":
			switch c.V {
			case "p1":
				r1 := mk("R1")
				onIf(func(r R, e error) bool { return reflect.DeepEqual(r, r1) })
			case "p2":
				onIf(func(r R, e error) bool { return errors.Is(e, errE2) })
			}
		}
	}
	if errsLast {
		regErrs()
	}
}

// classifyRow observes the verdicts the real policies reach for one row; returns mismatches as (way, detail).
func classifyRow[R any](row classRow, mk func(string) R, rev bool) (mis [][2]string) {
	conds := row.Conds
	if rev {
		conds = append([]cond(nil), conds...)
		sort.SliceStable(conds, func(i, j int) bool { return i > j })
	}
	r := mk(row.R)
	e := buildErr(row.E)
	fn := func(n *int) func() (R, error) { return func() (R, error) { *n++; return r, e } }
	bad := func(way, f string, a ...any) { mis = append(mis, [2]string{way, fmt.Sprintf(f, a...)}) }

	// (a) fallback applied iff failure
	{
		fbv := mk("R2")
		marker := errors.New("fallback-marker")
		applied := 0
		b := fallback.BuilderWithFunc(func(exec failsafe.Execution[R]) (R, error) { applied++; return fbv, marker })
		applyConds(conds, mk, func(x ...error) { b.HandleErrors(x...) }, func(x ...any) { b.HandleErrorTypes(x...) }, func(x R) { b.HandleResult(x) }, func(p func(R, error) bool) { b.HandleIf(p) })
		n := 0
		_, err := failsafe.Get(fn(&n), b.Build())
		got := applied == 1 && err == marker
		if applied > 1 || got != row.Fail || (!got && err != e) {
			bad("fallback", "fallback applied=%d err=%v; rule says failure=%v", applied, err, row.Fail)
		}
	}
	// (a2) the fallback's OWN outcome is classified by the same conditions: a fallback that is applied (to a failure chosen from
	// its first condition) and produces this row's outcome leaves the execution a success iff the row is not a failure
	if len(conds) > 0 {
		var tr R
		var te error
		known := true
		switch c0 := conds[0]; c0.T {
		case "errors":
			te = map[string]error{"E1": errE1, "E2": errE2, "E3": errE3}[c0.V]
		case "types":
			te = map[string]error{"TV": TV{1}, "TP": &TP{1}, "WT": WT{errE3}}[c0.V]
		case "result":
			tr = mk(c0.V)
		case "if":
			if c0.V == "p1" {
				tr = mk("R1")
			} else if c0.V == "p2" {
				te = errE2
			} else {
				known = false
			}
		}
		if known {
			applied := 0
			b := fallback.BuilderWithFunc(func(exec failsafe.Execution[R]) (R, error) { applied++; return r, e })
			applyConds(conds, mk, func(x ...error) { b.HandleErrors(x...) }, func(x ...any) { b.HandleErrorTypes(x...) }, func(x R) { b.HandleResult(x) }, func(p func(R, error) bool) { b.HandleIf(p) })
			verdict := ""
			ex := failsafe.NewExecutor[R](b.Build()).OnSuccess(func(failsafe.ExecutionDoneEvent[R]) { verdict += "S" }).OnFailure(func(failsafe.ExecutionDoneEvent[R]) { verdict += "F" })
			ex.Get(func() (R, error) { return tr, te })
			want := "S"
			if row.Fail {
				want = "F"
			}
			if applied != 1 || verdict != want {
				bad("fallback-own", "fallback applied %d times to a handled failure; producing this outcome the execution's verdict was %q; rule says failure=%v", applied, verdict, row.Fail)
			}
		}
	}
	// (b) retry policy retries iff failure
	{
		b := retrypolicy.Builder[R]().WithMaxRetries(1).ReturnLastFailure()
		applyConds(conds, mk, func(x ...error) { b.HandleErrors(x...) }, func(x ...any) { b.HandleErrorTypes(x...) }, func(x R) { b.HandleResult(x) }, func(p func(R, error) bool) { b.HandleIf(p) })
		n := 0
		failsafe.Get(fn(&n), b.Build())
		if (n == 2) != row.Fail || n > 2 {
			bad("retry", "function invoked %d times; rule says failure=%v", n, row.Fail)
		}
	}
	// (c) breaker counts it as failure iff failure: through an execution and through RecordResult/RecordError
	{
		mkb := func() circuitbreaker.CircuitBreaker[R] {
			b := circuitbreaker.Builder[R]().WithFailureThresholdRatio(5, 5)
			applyConds(conds, mk, func(x ...error) { b.HandleErrors(x...) }, func(x ...any) { b.HandleErrorTypes(x...) }, func(x R) { b.HandleResult(x) }, func(p func(R, error) bool) { b.HandleIf(p) })
			return b.Build()
		}
		cb := mkb()
		n := 0
		failsafe.Get(fn(&n), cb)
		if f, s := cb.Metrics().Failures(), cb.Metrics().Successes(); (f == 1) != row.Fail || f+s != 1 {
			bad("breaker-exec", "breaker counted failures=%d successes=%d; rule says failure=%v", f, s, row.Fail)
		}
		if e == nil {
			cb2 := mkb()
			cb2.RecordResult(r)
			if f, s := cb2.Metrics().Failures(), cb2.Metrics().Successes(); (f == 1) != row.Fail || f+s != 1 {
				bad("breaker-RecordResult", "breaker counted failures=%d successes=%d; rule says failure=%v", f, s, row.Fail)
			}
		}
		if row.R == "R0" && e != nil {
			cb3 := mkb()
			cb3.RecordError(e)
			if f, s := cb3.Metrics().Failures(), cb3.Metrics().Successes(); (f == 1) != row.Fail || f+s != 1 {
				bad("breaker-RecordError", "breaker counted failures=%d successes=%d; rule says failure=%v", f, s, row.Fail)
			}
		}
	}
	// (d) abort conditions: a retry policy that handles everything stops after one invocation iff abortable
	{
		aborts := 0
		b := retrypolicy.Builder[R]().WithMaxRetries(1).ReturnLastFailure().HandleIf(func(R, error) bool { return true }).
			OnAbort(func(failsafe.ExecutionEvent[R]) { aborts++ })
		applyConds(conds, mk, func(x ...error) { b.AbortOnErrors(x...) }, func(x ...any) { b.AbortOnErrorTypes(x...) }, func(x R) { b.AbortOnResult(x) }, func(p func(R, error) bool) { b.AbortIf(p) })
		n := 0
		failsafe.Get(fn(&n), b.Build())
		got := "no"
		if n == 1 {
			got = "yes"
		}
		if (row.Abort != "either" && got != row.Abort) || (n == 1) != (aborts == 1) || n > 2 {
			bad("abort", "function invoked %d times, OnAbort %d times; rule says abortable=%s", n, aborts, row.Abort)
		}
	}
	// (d2) ... and on a policy that allows no retry at all an abort-matching failure is still reported as an abort
	{
		aborts := 0
		b := retrypolicy.Builder[R]().WithMaxRetries(0).ReturnLastFailure().HandleIf(func(R, error) bool { return true }).
			OnAbort(func(failsafe.ExecutionEvent[R]) { aborts++ })
		applyConds(conds, mk, func(x ...error) { b.AbortOnErrors(x...) }, func(x ...any) { b.AbortOnErrorTypes(x...) }, func(x R) { b.AbortOnResult(x) }, func(p func(R, error) bool) { b.AbortIf(p) })
		n := 0
		failsafe.Get(fn(&n), b.Build())
		if n != 1 || (row.Abort == "yes" && aborts != 1) || (row.Abort == "no" && aborts != 0) {
			bad("abort0", "single-attempt policy: function invoked %d times, OnAbort %d times; rule says abortable=%s", n, aborts, row.Abort)
		}
	}
	// (e) hedge cancel conditions: the first attempt's result is accepted at once iff cancellable
	{
		b := hedgepolicy.BuilderWithDelay[R](time.Second)
		applyConds(conds, mk, func(x ...error) { b.CancelOnErrors(x...) }, func(x ...any) { b.CancelOnErrorTypes(x...) }, func(x R) { b.CancelOnResult(x) }, func(p func(R, error) bool) { b.CancelIf(p) })
		n := 0
		t0 := time.Now()
		var mu atomic.Int32
		failsafe.Get(func() (R, error) { mu.Add(1); return r, e }, b.Build())
		n = int(mu.Load())
		el := time.Since(t0)
		got := "no"
		if n == 1 && el == 0 {
			got = "yes"
		}
		if (row.Cancel != "either" && got != row.Cancel) || n > 2 {
			bad("cancel", "attempts=%d elapsed=%v; rule says cancellable=%s", n, el, row.Cancel)
		}
	}
	return mis
}

func rowSig(row classRow, way string) string {
	ts := map[string]bool{}
	for _, c := range row.Conds {
		ts[c.T] = true
	}
	var ks []string
	for k := range ts {
		ks = append(ks, k)
	}
	sort.Strings(ks)
	errp := "noerr"
	if row.E.Op != "nil" {
		errp = "err"
	}
	return way + ":" + strings.Join(ks, "+") + ":" + errp
}

func init() {
	modes["classify_rows"] = func(t *testing.T) {
		altTargets = envInt("VH_ALT", 0) == 1
		var n, bad, nontriv atomic.Int64
		var sample atomic.Value
		parallelLines(t, func(t *testing.T, line []byte) {
			var row classRow
			if err := tlaJSON(line, &row); err != nil {
				emit(M{"k": "error", "err": err.Error()})
				return
			}
			var mis [][2]string
			k := n.Add(1)
			synctest.Test(t, func(t *testing.T) {
				mis = append(mis, classifyRow(row, mkString, false)...)
				if k%3 == 0 {
					mis = append(mis, classifyRow(row, mkSlice, true)...)
				}
				if k%3 == 1 {
					mis = append(mis, classifyRow(row, mkPtr, k%2 == 0)...)
				}
			})
			if len(row.Conds) > 0 && row.E.Op != "nil" {
				nontriv.Add(1)
				if sample.Load() == nil {
					sample.Store(mustJSON(row))
				}
			}
			for _, m := range mis {
				if bad.Add(1) <= 60 {
					emit(M{"k": "mismatch", "sig": rowSig(row, m[0]), "what": m[1], "row": json.RawMessage(mustJSON(row)), "err": row.E.String()})
				}
			}
		})
		var smp any
		if s := sample.Load(); s != nil {
			smp = json.RawMessage(s.([]byte))
		}
		emit(M{"k": "summary", "n": n.Load(), "mismatches": bad.Load(), "nontrivial": nontriv.Load(), "sample": smp})
	}
}
