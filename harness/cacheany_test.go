package vh

import (
	"context"
	"encoding/json"
	"fmt"
	"sync/atomic"
	"testing"
	"testing/synctest"

	"github.com/failsafe-go/failsafe-go"
	"github.com/failsafe-go/failsafe-go/cachepolicy"
)

// ---- C11 with an interface result type (failsafe.Run-style executions, R = any): the zero result is nil ----

type anyCache struct{ m map[string]any }

func (c *anyCache) Get(k string) (any, bool) { v, ok := c.m[k]; return v, ok }
func (c *anyCache) Set(k string, v any)      { c.m[k] = v }

func mkAny(n string) any {
	if n == "R0" {
		return nil
	}
	return n
}
func anyName(v any) string {
	if v == nil {
		return "R0"
	}
	return fmt.Sprint(v)
}

// replayCacheAny handles stacks made of cache policies only.
func replayCacheAny(b fsBehaviour) (mis []fsMismatch) {
	caches := map[string]*anyCache{}
	var ps []failsafe.Policy[any]
	for _, d := range b.Stack {
		if d.K != "cache" {
			return []fsMismatch{{Tag: "calls", What: "cache_any supports cache-only stacks"}}
		}
		c, ok := caches[d.Id]
		if !ok {
			c = &anyCache{m: map[string]any{}}
			caches[d.Id] = c
		}
		bld := cachepolicy.Builder[any](c)
		if d.Key != "" {
			bld.WithKey(d.Key)
		}
		for _, cd := range d.Ifc {
			cd := cd
			bld.CacheIf(func(r any, e error) bool { return condPred(cd)(mkString(anyName(r)), e) })
		}
		ps = append(ps, bld.Build())
	}
	for xi, want := range b.Execs {
		calls := 0
		ex := failsafe.NewExecutor[any](ps...).WithContext(ctxFor(want.Ck))
		r, err := ex.Get(func() (any, error) {
			k := calls
			calls++
			if k >= len(want.Script) {
				return "UNSCRIPTED", nil
			}
			return mkAny(want.Script[k].R), buildErr(want.Script[k].E)
		})
		if calls != want.Calls {
			mis = append(mis, fsMismatch{Tag: "calls", Kind: "cache", Exec: xi, What: fmt.Sprintf("R=any: function invoked %d times, spec %d", calls, want.Calls)})
		}
		if anyName(r) != want.R || !termEq(projectErr(err), want.E) {
			mis = append(mis, fsMismatch{Tag: "ret", Kind: "cache", Exec: xi, What: fmt.Sprintf("R=any: returned (%s, %s), spec (%s, %s)", anyName(r), projectErr(err), want.R, want.E)})
		}
		for id, wp := range want.Probe {
			if wp.K != "cache" {
				continue
			}
			got := map[string]string{}
			for k, v := range caches[id].m {
				got[k] = anyName(v)
			}
			wantM := map[string]string{}
			for _, e := range wp.Entries {
				wantM[e.K] = e.V
			}
			if fmt.Sprint(got) != fmt.Sprint(wantM) {
				mis = append(mis, fsMismatch{Tag: "probe", Kind: "cache", Exec: xi, What: fmt.Sprintf("R=any: cache %s holds %v, spec %v", id, got, wantM)})
			}
		}
	}
	_ = context.Background
	return mis
}

func init() {
	modes["seq_cache_any"] = func(t *testing.T) {
		var n, bad, nontriv atomic.Int64
		parallelLines(t, func(t *testing.T, line []byte) {
			var b fsBehaviour
			if err := tlaJSON(line, &b); err != nil {
				emit(M{"k": "error", "err": err.Error()})
				return
			}
			n.Add(1)
			var mis []fsMismatch
			synctest.Test(t, func(t *testing.T) { mis = replayCacheAny(b) })
			nontriv.Add(1)
			if len(mis) > 0 && bad.Add(1) <= 20 {
				emit(M{"k": "mismatch", "entry": 9, "mis": mis, "behaviour": json.RawMessage(mustJSON(b))})
			}
		})
		emit(M{"k": "summary", "n": n.Load(), "mismatches": bad.Load(), "nontrivial": nontriv.Load(), "sample": nil})
	}
}
