package vh

import (
	"context"
	"encoding/json"
	"errors"
	"fmt"
	"reflect"
	"sort"
	"sync"
	"sync/atomic"
	"testing"
	"testing/synctest"
	"time"

	"github.com/failsafe-go/failsafe-go"
	"github.com/failsafe-go/failsafe-go/bulkhead"
	"github.com/failsafe-go/failsafe-go/cachepolicy"
	"github.com/failsafe-go/failsafe-go/circuitbreaker"
	"github.com/failsafe-go/failsafe-go/fallback"
	"github.com/failsafe-go/failsafe-go/hedgepolicy"
	"github.com/failsafe-go/failsafe-go/ratelimiter"
	"github.com/failsafe-go/failsafe-go/retrypolicy"
	"github.com/failsafe-go/failsafe-go/timeout"
)

// ---- sequential executions through policy stacks (specs/Failsafe.tla), direction A ----

type desc struct {
	K      string  `json:"k"`
	Id     string  `json:"id"`
	Max    int     `json:"max"`
	H      []cond  `json:"h"`
	A      []cond  `json:"a"`
	Rlf    bool    `json:"rlf"`
	Cfg    *brCfg  `json:"cfg"`
	M      int     `json:"m"`
	Pre    int     `json:"pre"`
	Fr     string  `json:"fr"`
	Fe     term    `json:"fe"`
	Key    string  `json:"key"`
	Ifc    []cond  `json:"ifc"`
	Maxh   int     `json:"maxh"`
	C      []cond  `json:"c"`
	Delay  int64   `json:"delay"`
	Limit  int64   `json:"limit"`
	Dly    int64   `json:"dly"`    // retry: fixed delay (units)
	MaxD   int64   `json:"maxd"`   // retry: max duration (units)
	Wait   int64   `json:"wait"`   // bulkhead: max wait time (units)
	Fld    int64   `json:"fld"`    // fallback: how long its OnFailure listener takes (timed scenarios)
	Rdf    bool    `json:"rdf"`    // retry: a delay function that reads the last error (1 unit after E1, 2 after E2, else 3)
	Dfn    *int64  `json:"dfn"`    // breaker: open delay its delay function asks for (units); absent or -1: none
	Per    int64   `json:"per"`    // bursty rate limiter of the sequential model: period (units); 0 = one endless period
	Ival   int64   `json:"ival"`   // smooth rate limiter: interval (units); 0 = the sequential model's bursty limiter
	Delays []int64 `json:"delays"` // hedge: delay function = delays[Hedges() % len] (empty: fixed delay)
}

type outcome struct {
	R string `json:"r"`
	E term   `json:"e"`
	D int64  `json:"d"` // how long the invocation takes (units)
}

type fsEvent struct {
	Ev  string          `json:"ev"`
	L   int             `json:"L"`
	Att int             `json:"att"`
	Exe int             `json:"exe"`
	Ret int             `json:"ret"`
	Hdg int             `json:"hdg"`
	Lr  string          `json:"lr"`
	Le  term            `json:"le"`
	X   json.RawMessage `json:"x"`
	St  int64           `json:"st"` // StartTime() (units since the replay began) and ElapsedTime() (units) as read at the event
	El  int64           `json:"el"`
}

type fsProbe struct {
	K       string `json:"k"`
	State   string `json:"state"`
	M       []uint `json:"m"`
	Left    int    `json:"left"`
	Used    int    `json:"used"`
	Permits int    `json:"permits"` // breaker: trial permits left when half-open (-1 otherwise)
	Entries []struct {
		K string `json:"k"`
		V string `json:"v"`
	} `json:"entries"`
}

type fsExec struct {
	Ck      string    `json:"ck"`
	Script  []outcome `json:"script"`
	Calls   int       `json:"calls"`
	R       string    `json:"r"`
	E       term      `json:"e"`
	Success bool      `json:"success"`
	Ev      []fsEvent `json:"ev"`
	Probe   probeMap  `json:"probe"`
	Att     int       `json:"att"`
	Exe     int       `json:"exe"`
	Ret     int       `json:"ret"`
	Hdg     int       `json:"hdg"`
	Now     int64     `json:"now"`
}

// probeMap: a TLA+ function with an empty domain is printed as an empty JSON array
type probeMap map[string]fsProbe

func (p *probeMap) UnmarshalJSON(b []byte) error {
	if len(b) > 0 && b[0] == '[' {
		*p = probeMap{}
		return nil
	}
	m := map[string]fsProbe{}
	if err := json.Unmarshal(b, &m); err != nil {
		return err
	}
	*p = m
	return nil
}

type fsBehaviour struct {
	Stack []desc   `json:"stack"`
	Execs []fsExec `json:"execs"`
}

var (
	errFB = errors.New("EFB")
)

func resName(s string) string {
	if s == "" {
		return "R0"
	}
	return s
}

// projectErr maps a real error to the spec's term (specs/Classify.tla, Failsafe.tla).
func projectErr(err error) term {
	leaf := func(s string) term { return term{Op: s, Ch: []term{}} }
	if err == nil {
		return leaf("nil")
	}
	var ex retrypolicy.ExceededError
	if tp, ok := err.(*TP); ok && tp != nil {
		return leaf("TP")
	}
	switch {
	case err == error(errCoop):
		return leaf("ECoop")
	case err == errE1:
		return leaf("E1")
	case err == errE2:
		return leaf("E2")
	case err == errE3:
		return leaf("E3")
	case err == errFB:
		return leaf("EFB")
	case err == error(TV{7}):
		return leaf("TV")
	case err == circuitbreaker.ErrOpen:
		return leaf("ErrOpen")
	case err == bulkhead.ErrFull:
		return leaf("ErrFull")
	case err == ratelimiter.ErrExceeded:
		return leaf("RateExceeded")
	case err == timeout.ErrExceeded:
		return leaf("TimeoutExceeded")
	case err == context.Canceled:
		return leaf("CtxCanceled")
	case err == context.DeadlineExceeded:
		return leaf("CtxDeadline")
	case err == failsafe.ErrExecutionCanceled:
		return leaf("ExecCanceled")
	case errors.As(err, &ex):
		if ex2, ok := err.(retrypolicy.ExceededError); ok {
			lr, _ := ex2.LastResult.(string)
			return term{Op: "Exceeded" + resName(lr), Ch: []term{projectErr(ex2.LastError)}}
		}
	}
	// the scripts' own wrappers: WT(x), errors.Join(x, y), fmt.Errorf("%w", x)
	if wt, ok := err.(WT); ok {
		return term{Op: "WT", Ch: []term{projectErr(wt.Err)}}
	}
	if m, ok := err.(*multiErr); ok && len(m.es) == 2 && m.es[0] == nil {
		return term{Op: "JN", Ch: []term{projectErr(m.es[1])}}
	}
	if j, ok := err.(interface{ Unwrap() []error }); ok {
		if es := j.Unwrap(); len(es) == 2 {
			return term{Op: "J", Ch: []term{projectErr(es[0]), projectErr(es[1])}}
		}
	}
	if _, isEx := err.(retrypolicy.ExceededError); !isEx {
		if u := errors.Unwrap(err); u != nil {
			return term{Op: "W", Ch: []term{projectErr(u)}}
		}
	}
	return leaf("?" + err.Error())
}

func termEq(a, b term) bool {
	if a.Op != b.Op || len(a.Ch) != len(b.Ch) {
		return false
	}
	for i := range a.Ch {
		if !termEq(a.Ch[i], b.Ch[i]) {
			return false
		}
	}
	return true
}

// decoyCtx: an already cancelled context with a cache key of its own, for executors that are derived and thrown away.
func decoyCtx() context.Context {
	c, cancel := context.WithCancel(context.WithValue(context.Background(), cachepolicy.CacheKey, "decoy"))
	cancel()
	return c
}

func buildErrX(t term) error {
	switch t.Op {
	case "EFB":
		return errFB
	case "CtxCanceled":
		return context.Canceled // (an attempt may fail with this error on its own account, nobody having cancelled anything)
	case "TimeoutExceeded":
		return timeout.ErrExceeded
	case "ErrOpen":
		return circuitbreaker.ErrOpen
	}
	return buildErr(t)
}

// recorder collects the per-execution ordered event log.
type recorder struct {
	mu      sync.Mutex
	evs     []fsEvent
	unit    time.Duration
	variant int // which listeners are registered (see registered)
	alt     int // 1: build the policies through the alternative, equivalent builder spellings (WithMaxAttempts, WithFailureThreshold, ...)
	limit   int
	cancel  context.CancelFunc
	runaway atomic.Bool
	// T mode (specs/FailsafeT.tla traces): every event becomes one NDJSON line with execution id and virtual time
	tmode bool
	t0    time.Time
	lines []M
	tld   time.Duration // how long the OnTimeoutExceeded listener takes
	curX  atomic.Int32
	after func(name string, x int) // T mode: called after an attempt event has been logged, still inside the listener (inline cancellations)
	mute  bool                     // events are not recorded (while the harness operates a spare policy during construction)
}

type xKeyT struct{}

var xKey = xKeyT{}

func xOf(ctx context.Context) int {
	if v, ok := ctx.Value(xKey).(int); ok {
		return v
	}
	return 0
}

// xOf: the execution an event belongs to; executions started WITHOUT a context of their own (they never overlap) are told apart by
// curX, the one under way in this scenario
func (r *recorder) xOf(ctx context.Context) int {
	if v, ok := ctx.Value(xKey).(int); ok {
		return v
	}
	return int(r.curX.Load())
}

func (r *recorder) vnow() int64 {
	d := time.Since(r.t0)
	if d%r.unit != 0 {
		return -1
	}
	return int64(d / r.unit)
}

// tline appends one trace line (T mode); fields of extra (a map) are merged into the line.
func (r *recorder) tline(m M, extra any) {
	r.tlineF(func() M { return m }, extra)
}

// stableCounters reads the four shared counters until two consecutive reads agree (they are separate atomics).
func stableCounters(a failsafe.ExecutionInfo) (att, exe, ret, hdg int) {
	for i := 0; i < 100; i++ {
		att, exe, ret, hdg = a.Attempts(), a.Executions(), a.Retries(), a.Hedges()
		if att == a.Attempts() && exe == a.Executions() && ret == a.Retries() && hdg == a.Hedges() {
			return
		}
	}
	return
}

// tlineF builds the line inside the recorder's critical section, so that what the line reports (counters, flags, time)
// is read at the position the line takes in the trace.
func (r *recorder) tlineF(build func() M, extra any) {
	r.mu.Lock()
	m := build()
	if em, ok := extra.(M); ok {
		for k, v := range em {
			m[k] = v
		}
	}
	m["t"] = r.vnow()
	r.lines = append(r.lines, m)
	r.mu.Unlock()
}

// registered says whether the listener that produces event `name` is registered in this variant. Unregistered
// listeners are not passed to the builders at all, and the spec's events of that name are not expected.
func (r *recorder) registered(name string) bool {
	switch r.variant {
	case 1: // executor: only OnFailure
		return name != "ExecOnSuccess" && name != "ExecOnDone"
	case 2: // executor: only OnSuccess and OnDone
		return name != "ExecOnFailure"
	case 3: // policies: no OnSuccess/OnFailure listeners
		return name != "OnSuccess" && name != "OnFailure"
	case 5: // fallbacks are built with BuilderWithResult / BuilderWithError: there is no fallback function to observe
		return name != "FallbackFn"
	case 6: // retry policies without an OnAbort listener (everything else registered)
		return name != "OnAbort"
	case 7: // breakers without the state-specific listeners (OnOpen / OnHalfOpen / OnClose): OnStateChanged still sees everything
		return name != "CbSpecific"
	case 4: // policies: only OnSuccess/OnFailure listeners plus the executor's
		switch name {
		case "OnRetryScheduled", "OnRetry", "OnAbort", "OnRetriesExceeded", "OnFull", "OnRateLimitExceeded", "OnHedge",
			"OnCacheHit", "OnCacheMiss", "OnResultCached", "OnFallbackExecuted", "OnTimeoutExceeded":
			return false
		}
	}
	return true
}

func (r *recorder) add(e fsEvent) {
	r.mu.Lock()
	r.evs = append(r.evs, e)
	n := len(r.evs)
	r.mu.Unlock()
	if r.limit > 0 && n > r.limit && r.cancel != nil {
		// runaway execution (far more events than the spec allows): stop it through its context so the run ends
		r.runaway.Store(true)
		r.cancel()
	}
}

func (r *recorder) attempt(name string, layer int, a failsafe.ExecutionAttempt[string], x any) {
	if r.tmode {
		r.tlineF(func() M {
			// double collect: the counters are shared atomics and LastError() depends on the copy's context, all of which
			// the library may change between two reads without logging anything; all of them only ever move one way, so
			// two identical consecutive collects are a snapshot of one instant
			att, exe, ret, hdg := stableCounters(a)
			le, first, retry := a.LastError(), a.IsFirstAttempt(), a.IsRetry()
			for i := 0; i < 100; i++ {
				att2, exe2, ret2, hdg2 := stableCounters(a)
				le2, first2, retry2 := a.LastError(), a.IsFirstAttempt(), a.IsRetry()
				same := att2 == att && exe2 == exe && ret2 == ret && hdg2 == hdg && le2 == le && first2 == first && retry2 == retry
				att, exe, ret, hdg, le, first, retry = att2, exe2, ret2, hdg2, le2, first2, retry2
				if same {
					break
				}
			}
			return M{"ev": name, "x": r.xOf(a.Context()), "L": layer, "att": att, "exe": exe, "ret": ret, "hdg": hdg,
				"lr": resName(a.LastResult()), "le": projectErr(le), "st": int64(a.StartTime().Sub(r.t0) / r.unit), "el": int64(a.ElapsedTime() / r.unit),
				"ast": int64(a.AttemptStartTime().Sub(r.t0) / r.unit), "ael": int64(a.ElapsedAttemptTime() / r.unit),
				"first": first, "retry": retry, "ishedge": a.IsHedge()}
		}, x)
		if r.after != nil {
			r.after(name, r.xOf(a.Context()))
		}
		return
	}
	r.add(fsEvent{Ev: name, L: layer, Att: a.Attempts(), Exe: a.Executions(), Ret: a.Retries(), Hdg: a.Hedges(),
		Lr: resName(a.LastResult()), Le: projectErr(a.LastError()), X: rawOf(x), St: int64(a.StartTime().Sub(r.t0) / r.unit), El: int64(a.ElapsedTime() / r.unit)})
}

func (r *recorder) info(name string, layer int, a failsafe.ExecutionInfo, res string, err error, x any) {
	if r.tmode {
		r.tlineF(func() M {
			att, exe, ret, hdg := stableCounters(a)
			return M{"ev": name, "x": r.xOf(a.Context()), "L": layer, "att": att, "exe": exe, "ret": ret, "hdg": hdg,
				"lr": resName(res), "le": projectErr(err), "st": int64(a.StartTime().Sub(r.t0) / r.unit), "el": int64(a.ElapsedTime() / r.unit)}
		}, x)
		return
	}
	r.add(fsEvent{Ev: name, L: layer, Att: a.Attempts(), Exe: a.Executions(), Ret: a.Retries(), Hdg: a.Hedges(),
		Lr: resName(res), Le: projectErr(err), X: rawOf(x), St: int64(a.StartTime().Sub(r.t0) / r.unit), El: int64(a.ElapsedTime() / r.unit)})
}

func (r *recorder) plain(name string, layer int, res string, x any) {
	if r.mute {
		return
	}
	if r.tmode {
		r.tline(M{"ev": name, "L": layer}, x)
		return
	}
	if xm, ok := x.(M); ok {
		delete(xm, "id")
	}
	r.add(fsEvent{Ev: name, L: layer, Att: -1, Lr: resName(res), Le: projectErr(nil), X: rawOf(x)})
}

func rawOf(x any) json.RawMessage {
	if x == nil {
		return json.RawMessage("[]")
	}
	return mustJSON(x)
}

type instrCache struct {
	rec   *recorder
	layer int
	mu    sync.Mutex
	m     map[string]string
}

func (c *instrCache) Get(key string) (string, bool) {
	c.mu.Lock()
	defer c.mu.Unlock()
	v, ok := c.m[key]
	if c.rec.tmode {
		// the line and the access are one step (the line sits in the trace where the access took effect)
		c.rec.tline(M{"ev": "CacheGet", "L": c.layer, "key": key, "found": ok, "v": resName(v)}, nil)
	} else {
		c.rec.plain("CacheGet", c.layer, "", key)
	}
	return v, ok
}
func (c *instrCache) Set(key string, value string) {
	c.mu.Lock()
	defer c.mu.Unlock()
	if c.rec.tmode {
		c.rec.tline(M{"ev": "CacheSet", "L": c.layer, "key": key, "v": resName(value)}, nil)
	} else {
		c.rec.plain("CacheSet", c.layer, value, key)
	}
	c.m[key] = value
}

type builtStack struct {
	policies []failsafe.Policy[string]
	breakers map[string]circuitbreaker.CircuitBreaker[string]
	limiters map[string]ratelimiter.RateLimiter[string]
	bulks    map[string]bulkhead.Bulkhead[string]
	bulkMax  map[string]int
	caches   map[string]*instrCache
	rec      *recorder
	spare    []any // second policies built from the same builders (alt&2): they must not share anything with the first
}

func condPred(c cond) func(string, error) bool {
	switch c.T {
	case "errors":
		var target error
		switch c.V {
		case "E1":
			target = errE1
		case "E2":
			target = errE2
		case "E3":
			target = errE3
		case "ErrExceeded":
			target = retrypolicy.ErrExceeded
		case "ErrOpen":
			target = circuitbreaker.ErrOpen
		case "TimeoutExceeded":
			target = timeout.ErrExceeded
		case "CtxCanceled":
			target = context.Canceled
		}
		return func(_ string, e error) bool { return errors.Is(e, target) }
	case "result":
		v := mkString(c.V)
		return func(r string, e error) bool { return e == nil && r == v }
	case "if":
		switch c.V {
		case "p1":
			return func(r string, e error) bool { return r == "R1" }
		case "p2":
			return func(r string, e error) bool { return errors.Is(e, errE2) }
		case "true":
			return func(r string, e error) bool { return true }
		case "err":
			return func(r string, e error) bool { return e != nil }
		}
	}
	panic("unsupported cond " + c.T + ":" + c.V)
}

func condErr(v string) error {
	switch v {
	case "E1":
		return errE1
	case "E2":
		return errE2
	case "E3":
		return errE3
	case "ErrExceeded":
		return retrypolicy.ErrExceeded
	case "ErrOpen":
		return circuitbreaker.ErrOpen
	case "ErrFull":
		return bulkhead.ErrFull
	case "RateExceeded":
		return ratelimiter.ErrExceeded
	case "TimeoutExceeded":
		return timeout.ErrExceeded
	case "CtxCanceled":
		return context.Canceled
	}
	panic("unknown error name " + v)
}

// applyStrConds registers handle/abort/cancel conditions through the real builder methods.
func applyStrConds(cs []cond, alt bool, onErrsV func(...error), onTypes func(...any), onResult func(string), onIf func(func(string, error) bool)) {
	// (nothing configured: an empty registration call, as in HandleErrors(cfg.Errors...) with an empty list, still configures nothing)
	if alt && len(cs) == 0 {
		onErrsV()
	}
	// all error registrations go through ONE variadic call, as users write HandleErrors(a, b) / AbortOnErrors(a, b)
	var errs []error
	for _, c := range cs {
		if c.T == "errors" {
			errs = append(errs, condErr(c.V))
		}
	}
	regErrs := func() {
		if len(errs) > 0 {
			onErrsV(errs...)
			for i := range errs {
				errs[i] = errors.New("overwritten after the registration")
			}
		}
	}
	// (alt: the errors are registered LAST, after types, results and predicates - no registration replaces an earlier one)
	if !alt {
		regErrs()
	}
	// ... and all error-type registrations through one HandleErrorTypes(A{}, &B{}) call
	var types []any
	for _, c := range cs {
		if c.T == "types" {
			// (altSpelling: the other documented spelling of the same target type, pointer instead of value and vice versa)
			switch c.V {
			case "TV":
				if alt {
					types = append(types, &TV{})
				} else {
					types = append(types, TV{})
				}
			case "TP":
				if alt {
					types = append(types, TP{})
				} else {
					types = append(types, &TP{})
				}
			default:
				panic("unsupported error type " + c.V)
			}
		}
	}
	if len(types) > 0 {
		onTypes(types...)
	}
	for _, c := range cs {
		switch c.T {
		case "errors", "types":
		case "result":
			onResult(mkString(c.V))
		case "if":
			onIf(condPred(c))
		default:
			panic("unsupported cond type " + c.T)
		}
	}
	if alt {
		regErrs()
	}
}

// strIsFailure is the documented classification rule for a set of handle conditions (the harness' own reading of it).
func strIsFailure(cs []cond, r string, err error) bool {
	if len(cs) == 0 {
		return err != nil
	}
	errorsChecked := false
	for _, c := range cs {
		switch c.T {
		case "errors":
			errorsChecked = true
			if err != nil && errors.Is(err, condErr(c.V)) {
				return true
			}
		case "types":
			errorsChecked = true
			var tv TV
			var tp *TP
			if (c.V == "TV" && errors.As(err, &tv)) || (c.V == "TP" && errors.As(err, &tp)) {
				return true
			}
		case "result":
			if err == nil && r == mkString(c.V) {
				return true
			}
		case "if":
			errorsChecked = true
			if condPred(c)(r, err) {
				return true
			}
		}
	}
	return err != nil && !errorsChecked
}

func buildStack(stack []desc, unit time.Duration, rec *recorder) *builtStack {
	bs := &builtStack{breakers: map[string]circuitbreaker.CircuitBreaker[string]{}, limiters: map[string]ratelimiter.RateLimiter[string]{},
		bulks: map[string]bulkhead.Bulkhead[string]{}, bulkMax: map[string]int{}, caches: map[string]*instrCache{}, rec: rec}
	idCount := map[string]int{}
	for _, d := range stack {
		if d.Id != "" {
			idCount[d.Id]++
		}
	}
	shared := map[string]failsafe.Policy[string]{}
	for li, d := range stack {
		layer := li + 1
		evLayer := layer
		if d.Id != "" && idCount[d.Id] > 1 {
			evLayer = -1 // the same instance sits at several layers: its listeners cannot tell which
		}
		if d.Id != "" {
			if p, ok := shared[d.Id]; ok {
				bs.policies = append(bs.policies, p)
				continue
			}
		}
		var p failsafe.Policy[string]
		switch d.K {
		case "retry":
			b := retrypolicy.Builder[string]()
			// the builder calls, applied in declaration order or (alt&2) in reverse: none of them may depend on the order
			var steps []func()
			steps = append(steps, func() {
				if rec.alt&1 == 1 {
					if d.Max == -1 {
						b.WithMaxAttempts(-1)
					} else {
						b.WithMaxAttempts(d.Max + 1)
					}
				} else {
					b.WithMaxRetries(d.Max)
				}
			})
			steps = append(steps, func() {
				applyStrConds(d.H, rec.alt&1 == 1, func(e ...error) { b.HandleErrors(e...) }, func(t ...any) { b.HandleErrorTypes(t...) }, func(r string) { b.HandleResult(r) }, func(f func(string, error) bool) { b.HandleIf(f) })
			})
			steps = append(steps, func() {
				applyStrConds(d.A, rec.alt&1 == 1, func(e ...error) { b.AbortOnErrors(e...) }, func(t ...any) { b.AbortOnErrorTypes(t...) }, func(r string) { b.AbortOnResult(r) }, func(f func(string, error) bool) { b.AbortIf(f) })
			})
			if d.Rlf {
				steps = append(steps, func() { b.ReturnLastFailure() })
			}
			if d.MaxD != 0 {
				steps = append(steps, func() { b.WithMaxDuration(time.Duration(d.MaxD) * unit) })
			}
			if d.Rdf {
				steps = append(steps, func() {
					b.WithDelayFunc(func(exec failsafe.ExecutionAttempt[string]) time.Duration {
						switch {
						case errors.Is(exec.LastError(), errE1):
							return unit
						case errors.Is(exec.LastError(), errE2):
							return 2 * unit
						}
						return 3 * unit
					})
				})
			}
			if d.Dly != 0 {
				steps = append(steps, func() {
					dl := time.Duration(d.Dly) * unit
					switch rec.alt {
					case 3:
						b.WithBackoff(dl, dl) // backoff capped at its first delay = that fixed delay
					case 1:
						b.WithRandomDelay(dl, dl) // a random delay in [d, d]
					default:
						b.WithDelay(dl)
					}
				})
			}
			if rec.registered("OnSuccess") {
				steps = append(steps, func() {
					b.OnSuccess(func(e failsafe.ExecutionEvent[string]) { rec.attempt("OnSuccess", evLayer, e, nil) })
				})
			}
			if rec.registered("OnFailure") {
				steps = append(steps, func() {
					b.OnFailure(func(e failsafe.ExecutionEvent[string]) { rec.attempt("OnFailure", evLayer, e, nil) })
				})
			}
			if rec.registered("OnAbort") {
				steps = append(steps, func() { b.OnAbort(func(e failsafe.ExecutionEvent[string]) { rec.attempt("OnAbort", evLayer, e, nil) }) })
			}
			if rec.registered("OnRetriesExceeded") {
				steps = append(steps, func() {
					b.OnRetriesExceeded(func(e failsafe.ExecutionEvent[string]) { rec.attempt("OnRetriesExceeded", evLayer, e, nil) })
				})
			}
			if rec.registered("OnRetryScheduled") {
				steps = append(steps, func() {
					b.OnRetryScheduled(func(e failsafe.ExecutionScheduledEvent[string]) {
						var x any = M{"delay": int64(e.Delay / unit)}
						if e.Delay%unit != 0 {
							x = M{"delay": e.Delay.String()}
						}
						rec.attempt("OnRetryScheduled", evLayer, e, x)
					})
				})
			}
			if rec.registered("OnRetry") {
				steps = append(steps, func() { b.OnRetry(func(e failsafe.ExecutionEvent[string]) { rec.attempt("OnRetry", evLayer, e, nil) }) })
			}
			if rec.alt&2 != 0 {
				for i, j := 0, len(steps)-1; i < j; i, j = i+1, j-1 {
					steps[i], steps[j] = steps[j], steps[i]
				}
			}
			for _, f := range steps {
				f()
			}
			p = b.Build()
			if rec.alt&2 != 0 {
				// the builder goes on to build another, different policy: the one already built must not change
				if d.Max >= 0 {
					b.WithMaxRetries(d.Max + 3)
				}
				b.ReturnLastFailure().WithMaxDuration(unit).
					OnRetry(func(failsafe.ExecutionEvent[string]) { rec.plain("WrongListener", evLayer, "", nil) }).
					OnRetriesExceeded(func(failsafe.ExecutionEvent[string]) { rec.plain("WrongListener", evLayer, "", nil) })
				bs.spare = append(bs.spare, b.Build())
			}
		case "cb":
			c := *d.Cfg
			c.UnitNs = int64(unit)
			b := circuitbreaker.Builder[string]()
			switch {
			case c.Frate != 0:
				b.WithFailureRateThreshold(c.Frate, c.Fexec, time.Duration(c.Period)*unit)
			case c.Period != 0:
				b.WithFailureThresholdPeriod(c.Fthr, time.Duration(c.Period)*unit)
			case rec.alt&1 == 1 && c.Fthr == c.Fcap:
				b.WithFailureThreshold(c.Fthr)
			default:
				b.WithFailureThresholdRatio(c.Fthr, c.Fcap)
			}
			if c.Sthr != 0 {
				if rec.alt&1 == 1 && c.Sthr == c.Scap {
					b.WithSuccessThreshold(c.Sthr)
				} else {
					b.WithSuccessThresholdRatio(c.Sthr, c.Scap)
				}
			}
			b.WithDelay(time.Duration(c.Delay) * unit)
			if rec.alt&1 == 1 || (d.Dfn != nil && *d.Dfn >= 0) {
				// a delay function that defers to the configured delay (-1), or asks for its own (d.Dfn), for the failure that trips
				// the breaker, and opens it for no time at all when it is handed anything else
				hs := d.H
				want := time.Duration(-1)
				if d.Dfn != nil && *d.Dfn >= 0 {
					want = time.Duration(*d.Dfn) * unit
				}
				b.WithDelayFunc(func(exec failsafe.ExecutionAttempt[string]) time.Duration {
					if strIsFailure(hs, exec.LastResult(), exec.LastError()) {
						return want
					}
					// user code (the delay function) is shown something else than the most recent completed attempt
					rec.plain("DelayFnSawNonFailure", evLayer, "", nil)
					return 0
				})
			}
			applyStrConds(d.H, rec.alt&1 == 1, func(e ...error) { b.HandleErrors(e...) }, func(t ...any) { b.HandleErrorTypes(t...) }, func(r string) { b.HandleResult(r) }, func(f func(string, error) bool) { b.HandleIf(f) })
			if rec.registered("OnSuccess") {
				b.OnSuccess(func(e failsafe.ExecutionEvent[string]) { rec.attempt("OnSuccess", evLayer, e, nil) })
			}
			if rec.registered("OnFailure") {
				b.OnFailure(func(e failsafe.ExecutionEvent[string]) { rec.attempt("OnFailure", evLayer, e, nil) })
			}
			var specific []string
			sp := func(e circuitbreaker.StateChangedEvent) {
				specific = append(specific, stateName(e.OldState)+">"+stateName(e.NewState))
			}
			withSpecific := rec.registered("CbSpecific")
			if withSpecific {
				b.OnOpen(sp).OnHalfOpen(sp).OnClose(sp)
			}
			b.OnStateChanged(func(e circuitbreaker.StateChangedEvent) {
				// the specific listener for this transition must have been called just before
				ok := !withSpecific || (len(specific) > 0 && specific[len(specific)-1] == stateName(e.OldState)+">"+stateName(e.NewState))
				name := "StateChanged"
				if !ok {
					name = "StateChanged(no specific listener)"
				}
				specific = nil
				rec.plain(name, evLayer, "", M{"old": stateName(e.OldState), "new": stateName(e.NewState), "m": metricsOf(e.Metrics()), "id": d.Id})
			})
			cb := b.Build()
			bs.breakers[d.Id] = cb
			p = cb
			if rec.alt&2 != 0 {
				// a second breaker from the same builder has its own state
				cb2 := b.Build()
				rec.mute = true
				cb2.Open()
				rec.mute = false
				bs.spare = append(bs.spare, cb2)
			}
		case "rl":
			period := 1000000 * unit
			if d.Per > 0 {
				period = time.Duration(d.Per) * unit
			}
			b := ratelimiter.BurstyBuilder[string](uint(d.M), period)
			if d.Ival > 0 {
				b = ratelimiter.SmoothBuilderWithMaxRate[string](time.Duration(d.Ival) * unit).WithMaxWaitTime(time.Duration(d.Wait) * unit)
			}
			if rec.registered("OnRateLimitExceeded") {
				b.OnRateLimitExceeded(func(e failsafe.ExecutionEvent[string]) { rec.attempt("OnRateLimitExceeded", evLayer, e, nil) })
			}
			rl := b.Build()
			bs.limiters[d.Id] = rl
			p = rl
			if rec.alt&2 != 0 && d.Ival == 0 {
				// a second limiter from the same builder has its own permits
				rl2 := b.Build()
				for i := 0; i < 100 && rl2.TryAcquirePermit(); i++ {
				}
				bs.spare = append(bs.spare, rl2)
			}
		case "bh":
			b := bulkhead.Builder[string](uint(d.Max))
			if d.Wait != 0 {
				b.WithMaxWaitTime(time.Duration(d.Wait) * unit)
			}
			if rec.registered("OnFull") {
				b.OnFull(func(e failsafe.ExecutionEvent[string]) { rec.attempt("OnFull", evLayer, e, nil) })
			}
			bh := b.Build()
			for i := 0; i < d.Pre; i++ {
				if !bh.TryAcquirePermit() {
					panic("cannot pre-take bulkhead permit")
				}
			}
			bs.bulks[d.Id] = bh
			bs.bulkMax[d.Id] = d.Max
			p = bh
			if rec.alt&2 != 0 {
				// a second bulkhead from the same builder has its own permits (and leaves the first one's alone)
				bh2 := b.Build()
				for i := 0; i < 100 && bh2.TryAcquirePermit(); i++ {
				}
				bs.spare = append(bs.spare, bh2)
			}
		case "fb":
			fr, fe := mkString(d.Fr), buildErrX(d.Fe)
			b := fallback.BuilderWithFunc(func(exec failsafe.Execution[string]) (string, error) {
				rec.attempt("FallbackFn", evLayer, exec, nil)
				return fr, fe
			})
			if !rec.registered("FallbackFn") {
				if fe == nil {
					b = fallback.BuilderWithResult(fr)
				} else if fr == "" {
					b = fallback.BuilderWithError[string](fe)
				}
			}
			applyStrConds(d.H, rec.alt&1 == 1, func(e ...error) { b.HandleErrors(e...) }, func(t ...any) { b.HandleErrorTypes(t...) }, func(r string) { b.HandleResult(r) }, func(f func(string, error) bool) { b.HandleIf(f) })
			if rec.registered("OnSuccess") {
				b.OnSuccess(func(e failsafe.ExecutionEvent[string]) { rec.attempt("OnSuccess", evLayer, e, nil) })
			}
			if rec.registered("OnFailure") {
				fld := time.Duration(d.Fld) * unit
				b.OnFailure(func(e failsafe.ExecutionEvent[string]) {
					rec.attempt("OnFailure", evLayer, e, nil)
					if fld > 0 {
						time.Sleep(fld) // a slow listener: whoever cancels meanwhile is seen by the check that follows
					}
				})
			}
			if rec.registered("OnFallbackExecuted") {
				b.OnFallbackExecuted(func(e failsafe.ExecutionDoneEvent[string]) {
					rec.info("OnFallbackExecuted", evLayer, e, e.Result, e.Error, nil)
				})
			}
			p = b.Build()
			if rec.alt&2 != 0 {
				b.OnFallbackExecuted(func(failsafe.ExecutionDoneEvent[string]) { rec.plain("WrongListener", evLayer, "", nil) })
				bs.spare = append(bs.spare, b.Build())
			}
		case "cache":
			ic := &instrCache{rec: rec, layer: evLayer, m: map[string]string{}}
			bs.caches[d.Id] = ic
			b := cachepolicy.Builder[string](ic)
			if d.Key != "" {
				b.WithKey(d.Key)
			}
			for _, c := range d.Ifc {
				b.CacheIf(condPred(c))
			}
			if rec.registered("OnCacheHit") {
				b.OnCacheHit(func(e failsafe.ExecutionDoneEvent[string]) {
					rec.info("OnCacheHit", evLayer, e, e.Result, e.Error, nil)
				})
			}
			if rec.registered("OnCacheMiss") {
				b.OnCacheMiss(func(e failsafe.ExecutionEvent[string]) { rec.attempt("OnCacheMiss", evLayer, e, nil) })
			}
			if rec.registered("OnResultCached") {
				b.OnResultCached(func(e failsafe.ExecutionEvent[string]) { rec.attempt("OnResultCached", evLayer, e, nil) })
			}
			p = b.Build()
		case "to":
			lim := d.Limit
			if lim == 0 && !rec.tmode {
				lim = 1000000 // (the sequential machine's Timeout never fires)
			}
			b := timeout.Builder[string](time.Duration(lim) * unit) // timed scenarios: a zero limit is a zero limit
			if rec.registered("OnTimeoutExceeded") {
				b.OnTimeoutExceeded(func(e failsafe.ExecutionDoneEvent[string]) {
					rec.info("OnTimeoutExceeded", evLayer, e, e.Result, e.Error, nil)
					if rec.tld > 0 {
						time.Sleep(rec.tld)
					}
				})
			}
			p = b.Build()
			if rec.alt&2 != 0 {
				b.OnTimeoutExceeded(func(failsafe.ExecutionDoneEvent[string]) { rec.plain("WrongListener", evLayer, "", nil) })
				bs.spare = append(bs.spare, b.Build())
			}
		case "hg":
			b := hedgepolicy.BuilderWithDelay[string](time.Duration(d.Delay) * unit)
			if rec.alt&1 == 1 && len(d.Delays) == 0 {
				dl := time.Duration(d.Delay) * unit
				b = hedgepolicy.BuilderWithDelayFunc[string](func(failsafe.ExecutionAttempt[string]) time.Duration { return dl })
			}
			if len(d.Delays) > 0 {
				delays := d.Delays
				b = hedgepolicy.BuilderWithDelayFunc[string](func(exec failsafe.ExecutionAttempt[string]) time.Duration {
					return time.Duration(delays[exec.Hedges()%len(delays)]) * unit
				})
			}
			b = b.WithMaxHedges(d.Maxh)
			applyStrConds(d.C, rec.alt&1 == 1, func(e ...error) { b.CancelOnErrors(e...) }, func(t ...any) { b.CancelOnErrorTypes(t...) }, func(r string) { b.CancelOnResult(r) }, func(f func(string, error) bool) { b.CancelIf(f) })
			if rec.registered("OnHedge") {
				b.OnHedge(func(e failsafe.ExecutionEvent[string]) { rec.attempt("OnHedge", evLayer, e, nil) })
			}
			p = b.Build()
			if rec.alt&2 != 0 {
				b.WithMaxHedges(d.Maxh + 2).OnHedge(func(failsafe.ExecutionEvent[string]) { rec.plain("WrongListener", evLayer, "", nil) })
				bs.spare = append(bs.spare, b.Build())
			}
		default:
			panic("unknown policy kind " + d.K)
		}
		if d.Id != "" {
			shared[d.Id] = p
		}
		bs.policies = append(bs.policies, p)
	}
	return bs
}

type fsMismatch struct {
	Tag  string `json:"tag"`  // calls | ret | verdict | probe | evname | evsnap | evextra | counters
	Kind string `json:"kind"` // policy kind the mismatch is about ("" = whole execution)
	What string `json:"what"`
	Exec int    `json:"exec"`
}

func ctxFor(ck string) context.Context {
	switch ck {
	case "none":
		return context.Background()
	case "nonstring":
		return context.WithValue(context.Background(), cachepolicy.CacheKey, 42)
	}
	return context.WithValue(context.Background(), cachepolicy.CacheKey, ck)
}

func kindOfLayer(stack []desc, l int) string {
	if l >= 1 && l <= len(stack) {
		return stack[l-1].K
	}
	if l == len(stack)+1 {
		return "fn"
	}
	return ""
}

func replaySeq(b fsBehaviour, unit time.Duration, entry int, variant int) (mis []fsMismatch, nontrivial bool) {
	rec := &recorder{unit: unit, variant: variant % 8, alt: (variant / 8) % 4, t0: time.Now()}
	bs := buildStack(b.Stack, unit, rec)
	n := len(b.Stack)
	add := func(x int, tag, kind, f string, a ...any) {
		mis = append(mis, fsMismatch{Tag: tag, Kind: kind, What: fmt.Sprintf(f, a...), Exec: x})
	}
	for xi, want := range b.Execs {
		rec.evs = nil
		calls := 0
		var verdicts []string
		xctx, xcancel := context.WithCancel(ctxFor(want.Ck))
		rec.limit, rec.cancel = 20*len(want.Ev)+200, xcancel
		rec.runaway.Store(false)
		ex := failsafe.NewExecutor[string](bs.policies...)
		if rec.alt&2 == 0 {
			ex = ex.WithContext(xctx) // (alt&2: the context is attached after the listeners, and a nil context changes nothing)
		}
		if rec.registered("ExecOnSuccess") {
			ex = ex.OnSuccess(func(e failsafe.ExecutionDoneEvent[string]) {
				verdicts = append(verdicts, "success")
				rec.info("ExecOnSuccess", 0, e, e.Result, e.Error, nil)
			})
		}
		if rec.registered("ExecOnFailure") {
			ex = ex.OnFailure(func(e failsafe.ExecutionDoneEvent[string]) {
				verdicts = append(verdicts, "failure")
				rec.info("ExecOnFailure", 0, e, e.Result, e.Error, nil)
			})
		}
		if rec.registered("ExecOnDone") {
			ex = ex.OnDone(func(e failsafe.ExecutionDoneEvent[string]) { rec.info("ExecOnDone", 0, e, e.Result, e.Error, nil) })
		}
		if rec.alt&2 != 0 {
			ex = ex.WithContext(xctx).WithContext(nil)
		}
		if rec.alt&1 != 0 {
			_ = ex.WithContext(decoyCtx()) // WithContext returns a copy: the executor it was called on keeps its own context
		}
		// the spec's log restricted to the listeners registered in this variant
		{
			var f []fsEvent
			for _, e := range want.Ev {
				if rec.registered(e.Ev) {
					f = append(f, e)
				}
			}
			want.Ev = f
		}
		var mu sync.Mutex
		fn := func(exec failsafe.Execution[string]) (string, error) {
			mu.Lock()
			k := calls
			calls++
			mu.Unlock()
			if exec != nil {
				rec.attempt("FnStart", n+1, exec, M{"hedge": exec.IsHedge()})
				if exec.IsFirstAttempt() != (exec.Attempts() == 1) || exec.IsRetry() != (exec.Attempts() > 1) {
					rec.plain("FlagsInconsistent", n+1, "", nil)
				}
			} else {
				rec.add(fsEvent{Ev: "FnStart", L: n + 1, Att: -1, Lr: "R0", Le: projectErr(nil), X: rawOf(nil)})
			}
			if k >= len(want.Script) {
				return "UNSCRIPTED", nil
			}
			if want.Script[k].D > 0 {
				time.Sleep(time.Duration(want.Script[k].D) * unit)
			}
			return mkString(want.Script[k].R), buildErr(want.Script[k].E)
		}
		var r string
		var err error
		// entries 4..7 are the Run* family: the function has no result, so they apply when the script never returns one
		if entry >= 4 {
			for _, s := range want.Script {
				if s.R != "R0" {
					entry -= 4
					break
				}
			}
		}
		runFn := func(exec failsafe.Execution[string]) error { _, e := fn(exec); return e }
		switch entry {
		case 4: // Run / RunWithExecution have no result to compare
			err = ex.RunWithExecution(runFn)
			r = mkString(want.R)
		case 5:
			err = ex.Run(func() error { return runFn(nil) })
			r = mkString(want.R)
		case 6:
			er := ex.RunWithExecutionAsync(runFn)
			r, err = er.Get()
		case 7:
			er := ex.RunAsync(func() error { return runFn(nil) })
			<-er.Done()
			r, err = er.Result(), er.Error()
		case 0:
			r, err = ex.GetWithExecution(fn)
		case 1:
			r, err = ex.Get(func() (string, error) { return fn(nil) })
		case 2:
			er := ex.GetWithExecutionAsync(fn)
			r, err = er.Get()
		case 3:
			er := ex.GetAsync(func() (string, error) { return fn(nil) })
			<-er.Done()
			r, err = er.Result(), er.Error()
		}
		got := rec.evs
		if len(got) > 0 {
			nontrivial = nontrivial || calls != 1 || len(got) > 4
		}
		xcancel()
		// ---- compare ----
		if rec.runaway.Load() {
			add(xi, "calls", "", "runaway execution: more than %d listener calls (spec %d), stopped through its context", rec.limit, len(want.Ev))
			continue
		}
		if calls != want.Calls {
			add(xi, "calls", "", "function invoked %d times, spec %d", calls, want.Calls)
		}
		if resName(r) != want.R || !termEq(projectErr(err), want.E) {
			add(xi, "ret", "", "returned (%s, %s), spec (%s, %s)", resName(r), projectErr(err), want.R, want.E)
		}
		wv := "failure"
		if want.Success {
			wv = "success"
		}
		wantV := []string{}
		if (want.Success && rec.registered("ExecOnSuccess")) || (!want.Success && rec.registered("ExecOnFailure")) {
			wantV = append(wantV, wv)
		}
		if !reflect.DeepEqual(append([]string{}, verdicts...), wantV) {
			add(xi, "verdict", "", "completion listeners called %v, spec %v", verdicts, wantV)
		}
		// events
		if len(got) != len(want.Ev) {
			add(xi, "evname", firstDiffKind(b.Stack, got, want.Ev), "event log %s, spec %s", evNames(got), evNames(want.Ev))
		} else {
			for k := range got {
				g, w := got[k], want.Ev[k]
				kind := kindOfLayer(b.Stack, w.L)
				if g.Ev != w.Ev || (g.L != -1 && g.L != w.L) {
					add(xi, "evname", kind, "event %d is %s@%d, spec %s@%d (log %s)", k, g.Ev, g.L, w.Ev, w.L, evNames(got))
					break
				}
				if g.Att != -1 && (g.Att != w.Att || g.Exe != w.Exe || g.Ret != w.Ret || g.Hdg != w.Hdg) {
					add(xi, "evsnap", kind, "event %d %s@%d sees attempts/executions/retries/hedges %d/%d/%d/%d, spec %d/%d/%d/%d", k, w.Ev, w.L, g.Att, g.Exe, g.Ret, g.Hdg, w.Att, w.Exe, w.Ret, w.Hdg)
				}
				if g.Att != -1 && (g.St != w.St || g.El != w.El) {
					add(xi, "evsnap", kind, "event %d %s@%d reports StartTime %d, ElapsedTime %d (units), spec %d, %d", k, w.Ev, w.L, g.St, g.El, w.St, w.El)
				}
				if (g.Att != -1 || w.Ev == "CacheSet") && (g.Lr != w.Lr || !termEq(g.Le, w.Le)) {
					add(xi, "evsnap", kind, "event %d %s@%d sees last (%s, %s), spec (%s, %s)", k, w.Ev, w.L, g.Lr, g.Le, w.Lr, w.Le)
				}
				if !(entry == 1 || entry == 3 || entry == 5 || entry == 7) || w.Ev != "FnStart" {
					if !jsonEq(g.X, w.X) {
						add(xi, "evextra", kind, "event %d %s@%d carries %s, spec %s", k, w.Ev, w.L, string(g.X), string(w.X))
					}
				}
			}
		}
		// probes
		for id, wp := range want.Probe {
			switch wp.K {
			case "cb":
				cb := bs.breakers[id]
				if st, m := stateName(cb.State()), metricsOf(cb.Metrics()); st != wp.State || !reflect.DeepEqual(m, wp.M) {
					add(xi, "probe", "cb", "breaker %s is %s %v, spec %s %v", id, st, m, wp.State, wp.M)
				}
				// after the last execution: the trial permits a half-open breaker still has (taking them changes the breaker)
				if xi == len(b.Execs)-1 && wp.State == "halfopen" && cb.State() == circuitbreaker.HalfOpenState {
					left := 0
					for i := 0; i < 50 && cb.TryAcquirePermit(); i++ {
						left++
					}
					if left != wp.Permits {
						add(xi, "probe", "cb", "half-open breaker %s has %d trial permits left, spec %d", id, left, wp.Permits)
					}
				}
			case "bh":
				bh := bs.bulks[id]
				free := 0
				for bh.TryAcquirePermit() {
					free++
				}
				for i := 0; i < free; i++ {
					bh.ReleasePermit()
				}
				if used := bs.bulkMax[id] - free; used != wp.Used {
					add(xi, "probe", "bh", "bulkhead %s has %d permits in use, spec %d", id, used, wp.Used)
				}
			case "rl":
				if xi == len(b.Execs)-1 {
					left := 0
					for bs.limiters[id].TryAcquirePermit() {
						left++
					}
					if left != wp.Left {
						add(xi, "probe", "rl", "limiter %s has %d permits left, spec %d", id, left, wp.Left)
					}
				}
			case "cache":
				c := bs.caches[id]
				wantM := map[string]string{}
				for _, e := range wp.Entries {
					wantM[e.K] = mkString(e.V)
				}
				if !reflect.DeepEqual(c.m, wantM) {
					add(xi, "probe", "cache", "cache %s holds %v, spec %v", id, c.m, wantM)
				}
			}
		}
		_ = sort.Strings
	}
	// let goroutines the library started finish (time stops when the bubble's root returns)
	time.Sleep(10 * time.Second)
	synctest.Wait()
	return mis, nontrivial
}

func firstDiffKind(stack []desc, got, want []fsEvent) string {
	for k := 0; k < len(got) && k < len(want); k++ {
		if got[k].Ev != want[k].Ev || (got[k].L != -1 && got[k].L != want[k].L) {
			return kindOfLayer(stack, want[k].L)
		}
	}
	if len(want) > len(got) {
		return kindOfLayer(stack, want[len(got)].L)
	}
	if len(got) > len(want) && got[len(want)].L > 0 {
		return kindOfLayer(stack, got[len(want)].L)
	}
	return ""
}

func evNames(evs []fsEvent) string {
	s := "["
	for i, e := range evs {
		if i > 0 {
			s += " "
		}
		s += fmt.Sprintf("%s@%d", e.Ev, e.L)
	}
	return s + "]"
}

func jsonEq(a, b json.RawMessage) bool {
	var x, y any
	if json.Unmarshal(a, &x) != nil || json.Unmarshal(b, &y) != nil {
		return false
	}
	if isEmpty(x) && isEmpty(y) {
		return true
	}
	return reflect.DeepEqual(x, y)
}

func isEmpty(x any) bool {
	switch v := x.(type) {
	case nil:
		return true
	case []any:
		return len(v) == 0
	case map[string]any:
		return len(v) == 0
	}
	return false
}

func init() {
	modes["seq_replay"] = func(t *testing.T) {
		unit := time.Duration(envInt("VH_UNIT_NS", 1000000))
		entries := envInt("VH_ENTRIES", 1) // how many entry points each behaviour is run through (1..8)
		var n, bad, nontriv atomic.Int64
		var sample atomic.Value
		parallelLines(t, func(t *testing.T, line []byte) {
			var b fsBehaviour
			if err := tlaJSON(line, &b); err != nil {
				emit(M{"k": "error", "err": err.Error()})
				return
			}
			k := n.Add(1)
			var nt bool
			for e := 0; e < entries; e++ {
				entry := e
				if entries == 1 {
					entry = 0
				}
				var mis []fsMismatch
				synctest.Test(t, func(t *testing.T) {
					mis, nt = replaySeq(b, unit, entry, int(k)%32)
				})
				if len(mis) > 0 {
					if bad.Add(1) <= 40 {
						emit(M{"k": "mismatch", "entry": entry, "variant": int(k) % 32, "mis": mis, "behaviour": json.RawMessage(mustJSON(b))})
					} else {
						tags := map[string]bool{}
						for _, m := range mis {
							tags[m.Tag+"/"+m.Kind] = true
						}
						emit(M{"k": "mismatch_more", "entry": entry, "tags": tags})
					}
				}
			}
			_ = k
			if nt {
				nontriv.Add(1)
				if sample.Load() == nil {
					sample.Store(mustJSON(b))
				}
			}
		})
		var smp any
		if s := sample.Load(); s != nil {
			smp = json.RawMessage(s.([]byte))
		}
		emit(M{"k": "summary", "n": n.Load(), "mismatches": bad.Load(), "nontrivial": nontriv.Load(), "sample": smp})
	}
}
