package vh

import (
	"bufio"
	"encoding/json"
	"fmt"
	"os"
	"runtime"
	"strconv"
	"sync"
	"testing"
)

// TestVerif is the single entry point; VH_MODE selects the driver. All verdict-bearing output is `VH {json}` lines.
func TestVerif(t *testing.T) {
	mode := os.Getenv("VH_MODE")
	fn, ok := modes[mode]
	if !ok {
		t.Skipf("VH_MODE %q not set/unknown", mode)
	}
	fn(t)
}

var modes = map[string]func(t *testing.T){}

var outMu sync.Mutex
var outW = bufio.NewWriterSize(os.Stdout, 1<<20)

func emit(v any) {
	b, err := json.Marshal(v)
	if err != nil {
		panic(err)
	}
	outMu.Lock()
	outW.WriteString("VH ")
	outW.Write(b)
	outW.WriteByte('\n')
	outW.Flush()
	outMu.Unlock()
}

type M = map[string]any

func envInt(name string, def int) int {
	if s := os.Getenv(name); s != "" {
		if v, err := strconv.Atoi(s); err == nil {
			return v
		}
	}
	return def
}

func envJSON(name string, into any) {
	s := os.Getenv(name)
	if s == "" {
		panic("missing env " + name)
	}
	if err := json.Unmarshal([]byte(s), into); err != nil {
		panic(fmt.Sprintf("bad %s: %v", name, err))
	}
}

func nWorkers() int {
	n := envInt("VH_WORKERS", runtime.NumCPU())
	if n < 1 {
		n = 1
	}
	return n
}

// stdinLines feeds every stdin line to the returned channel (lines can be large).
func stdinLines() <-chan []byte {
	ch := make(chan []byte, 1024)
	go func() {
		sc := bufio.NewScanner(os.Stdin)
		sc.Buffer(make([]byte, 1<<20), 64<<20)
		for sc.Scan() {
			b := append([]byte(nil), sc.Bytes()...)
			ch <- b
		}
		close(ch)
	}()
	return ch
}

// tlaJSON decodes a line that is either raw JSON or a TLA+ string literal holding JSON (PrintT(ToJson(x))).
func tlaJSON(line []byte, into any) error {
	if len(line) > 0 && line[0] == '"' {
		var s string
		if err := json.Unmarshal(line, &s); err != nil {
			return err
		}
		return json.Unmarshal([]byte(s), into)
	}
	return json.Unmarshal(line, into)
}

// parallelLines runs fn over stdin lines on n parallel subtests (each with its own *testing.T for synctest).
func parallelLines(t *testing.T, fn func(t *testing.T, line []byte)) {
	ch := stdinLines()
	t.Run("w", func(t *testing.T) {
		for i := 0; i < nWorkers(); i++ {
			t.Run(strconv.Itoa(i), func(t *testing.T) {
				t.Parallel()
				for line := range ch {
					fn(t, line)
				}
			})
		}
	})
}
