package vh

import (
	"bufio"
	"context"
	"encoding/json"
	"errors"
	"math/rand"
	"os"
	"strings"
	"sync"
	"testing"
	"testing/synctest"
	"time"

	"github.com/failsafe-go/failsafe-go"
	"github.com/failsafe-go/failsafe-go/retrypolicy"
)

// ---- C13 direction B: traces of scheduled retry delays, validated by TLC against specs/RetryDelay.tla ----

type rdCfg struct {
	Kind   string `json:"kind"`
	D      int64  `json:"d"`
	Maxd   int64  `json:"maxd"`
	Fp     int64  `json:"fp"`
	Fq     int64  `json:"fq"`
	Dmin   int64  `json:"dmin"`
	Dmax   int64  `json:"dmax"`
	Jit    int64  `json:"jit"`
	Jfp    int64  `json:"jfp"`
	Maxdur int64  `json:"maxdur"`
	Tol    int64  `json:"tol"`
}

func qr(d, u time.Duration) (int64, bool) { return int64(d / u), d%u == 0 }

func genRdCfg(r *rand.Rand) (rdCfg, int64, []int64, int) {
	c := rdCfg{Fp: 1, Fq: 1, Tol: 1}
	switch r.Intn(5) {
	case 0:
		c.Kind = "none"
	case 1:
		c.Kind, c.D = "fixed", 1000
	case 2, 3:
		c.Kind, c.D = "backoff", 1000
		c.Maxd = []int64{1000, 3000, 10000, 100000}[r.Intn(4)]
		f := [][2]int64{{2, 1}, {3, 2}, {3, 1}, {5, 4}}[r.Intn(4)]
		c.Fp, c.Fq = f[0], f[1]
	case 4:
		c.Kind, c.Dmin = "random", 1000
		c.Dmax = []int64{1000, 1500, 4000}[r.Intn(3)]
	}
	switch r.Intn(3) {
	case 1:
		c.Jit = []int64{100, 500, 1500}[r.Intn(3)]
	case 2:
		c.Jfp = []int64{10, 25, 50, 100}[r.Intn(4)]
	}
	if r.Intn(2) == 0 {
		c.Maxdur = []int64{1500, 4000, 20000}[r.Intn(3)]
	}
	base := []int64{1000, 1000000, 1000000000, 60000000000, 3600000000000}[r.Intn(5)]
	if base == 1000 {
		// unit = 1ns: the code truncates every backoff step to whole nanoseconds, which compounds to a few units
		c.Tol = 8
	}
	var fvals []int64 // delay function script (-1 = no value); nil = no delay function
	if r.Intn(10) < 3 {
		for i := 0; i < 10; i++ {
			fvals = append(fvals, []int64{-1, -1, 0, 500, 2000}[r.Intn(5)])
		}
	}
	maxRetries := 3 + r.Intn(6)
	if c.Kind == "backoff" && c.Maxdur == 0 && r.Intn(6) == 0 {
		maxRetries = 70 // a long run of failures: the backoff stays at maxDelay however long it lasts
	}
	return c, base / 1000, fvals, maxRetries
}

func init() {
	modes["retry_delay_traces"] = func(t *testing.T) {
		n := envInt("VH_N", 1000)
		out, err := os.Create(os.Getenv("VH_OUT"))
		if err != nil {
			t.Fatal(err)
		}
		live, _ := os.Create(os.Getenv("VH_OUT") + ".live")
		if live != nil {
			defer live.Close()
		}
		w := bufio.NewWriterSize(out, 1<<20)
		enc := func(v any) { b, _ := json.Marshal(v); w.Write(b); w.WriteByte('\n') }
		r := rand.New(rand.NewSource(int64(envInt("VH_SEED", 1))))
		events, nontrivial := 0, 0
		var sample []any
		for i := 0; i < n; i++ {
			c, unitNs, fvals, maxRetries := genRdCfg(r)
			u := time.Duration(unitNs)
			durs := make([]time.Duration, 12)
			for j := range durs {
				durs[j] = time.Duration([]int64{0, 0, 100, 700}[r.Intn(4)]) * u
			}
			perm := r.Perm(6)
			var lines []any
			lines = append(lines, M{"ev": "Config", "cfg": c, "unit_ns": unitNs, "maxRetries": maxRetries})
			func() {
				// a policy that never comes back (a delay that overflowed into "forever") ends the bubble with a deadlock panic:
				// that is a finding about the configuration at hand, not a reason to stop
				defer func() {
					if p := recover(); p != nil {
						emit(M{"k": "problem", "what": "panic: " + strings.SplitN(strings.TrimSpace(toString(p)), "\n", 2)[0], "cfg": c, "maxRetries": maxRetries})
						lines = lines[:1]
					}
				}()
				synctest.Test(t, func(t *testing.T) {
					b := retrypolicy.Builder[string]()
					// the configuration calls in a random order: none of them may depend on what was called before
					steps := []func(){func() { b.WithMaxRetries(maxRetries) }}
					// every other configuration first configures the OTHER delay kinds and then the one it wants: the later call replaces
					// what the earlier ones set (WithBackoff clears a random delay, WithRandomDelay clears fixed delay and backoff)
					prelude := i%2 == 1
					switch c.Kind {
					case "fixed":
						steps = append(steps, func() {
							if prelude {
								b.WithBackoff(7*u, 700*u).WithRandomDelay(3*u, 9*u)
							}
							b.WithDelay(time.Duration(c.D) * u)
						})
					case "backoff":
						steps = append(steps, func() {
							if prelude {
								b.WithRandomDelay(3*u, 9*u)
							}
							b.WithBackoffFactor(time.Duration(c.D)*u, time.Duration(c.Maxd)*u, float32(c.Fp)/float32(c.Fq))
						})
					case "random":
						steps = append(steps, func() {
							if prelude {
								b.WithBackoff(7*u, 700*u)
							}
							b.WithRandomDelay(time.Duration(c.Dmin)*u, time.Duration(c.Dmax)*u)
						})
					}
					if c.Jit != 0 {
						steps = append(steps, func() { b.WithJitter(time.Duration(c.Jit) * u) })
					}
					if c.Jfp != 0 {
						steps = append(steps, func() { b.WithJitterFactor(float32(c.Jfp) / 100) })
					}
					if c.Maxdur != 0 {
						steps = append(steps, func() { b.WithMaxDuration(time.Duration(c.Maxdur) * u) })
					}
					for _, j := range perm {
						if j < len(steps) {
							steps[j]()
						}
					}
					// one or (every third configuration) two overlapping executions through the SAME policy instance, each with its
					// own trace: what one execution schedules must not depend on the other
					type xstate struct {
						lines   []any
						fcall   int
						lastFv  int64
						schedAt time.Time
						pending bool
						calls   int
						lastErr error
					}
					// every other delay function reads the failure it is asked about (LastError of the attempt that just failed):
					// 500 units after E1, 2000 after E2; the trace carries what THAT failure calls for
					byErr := fvals != nil && i%2 == 0
					valFor := func(err error) int64 {
						if errors.Is(err, errE1) {
							return 500
						}
						return 2000
					}
					nx := 1
					if i%3 == 2 {
						nx = 2
					}
					// (the first execution's events also go straight to <out>.live, unbuffered: should the process die - the Go runtime has
					// been seen to throw inside a bubble once a delay overflowed - what was observed up to then can still be validated)
					if live != nil {
						b0, _ := json.Marshal(lines[0])
						live.Write(append(b0, '\n'))
					}
					xs := make([]*xstate, nx)
					for k := range xs {
						xs[k] = &xstate{lastFv: -1, lines: []any{lines[0]}}
					}
					type rdKey struct{}
					of := func(ctx context.Context) *xstate { return xs[ctx.Value(rdKey{}).(int)] }
					if fvals != nil {
						b.WithDelayFunc(func(exec failsafe.ExecutionAttempt[string]) time.Duration {
							st := of(exec.Context())
							if byErr {
								return time.Duration(valFor(exec.LastError())) * u
							}
							st.lastFv = fvals[st.fcall%len(fvals)]
							st.fcall++
							if st.lastFv == -1 {
								return -1
							}
							return time.Duration(st.lastFv) * u
						})
					}
					b.OnRetryScheduled(func(e failsafe.ExecutionScheduledEvent[string]) {
						st := of(e.Context())
						q, rz := qr(e.Delay, u)
						if e.Delay < 0 {
							q, rz = -1-int64(-e.Delay/u), false
						}
						el, _ := qr(e.ElapsedTime(), u)
						if byErr {
							st.lastFv = valFor(st.lastErr)
						}
						st.lines = append(st.lines, M{"ev": "Sched", "q": q, "rz": rz, "el": el, "fv": st.lastFv, "retries": e.Retries(), "at": 0})
						if live != nil && st == xs[0] {
							b0, _ := json.Marshal(st.lines[len(st.lines)-1])
							live.Write(append(b0, '\n'))
						}
						st.lastFv = -1
						st.schedAt = time.Now()
						st.pending = true
					})
					pol := b.Build()
					var wg sync.WaitGroup
					for k := range xs {
						wg.Add(1)
						go func(k int) {
							defer wg.Done()
							st := xs[k]
							if k > 0 {
								time.Sleep(durs[1]/2 + 3*u/2) // the second execution starts while the first one is under way
							}
							failsafe.NewExecutor[string](pol).WithContext(context.WithValue(context.Background(), rdKey{}, k)).Get(func() (string, error) {
								if st.pending {
									gq, grz := qr(time.Since(st.schedAt), u)
									st.lines = append(st.lines, M{"ev": "Start", "gq": gq, "grz": grz})
									st.pending = false
								}
								d := durs[(st.calls+k)%len(durs)]
								st.calls++
								if d > 0 {
									time.Sleep(d)
								}
								st.lastErr = errE1
								if (st.calls+k)%3 == 0 {
									st.lastErr = errE2
								}
								return "", st.lastErr
							})
						}(k)
					}
					wg.Wait()
					lines = nil
					for _, st := range xs {
						lines = append(lines, st.lines...)
					}
				})
			}()
			for _, l := range lines {
				enc(l)
			}
			events += len(lines)
			if len(lines) > 3 && (c.Jit != 0 || c.Jfp != 0 || c.Maxdur != 0 || c.Kind == "backoff") {
				nontrivial++
			}
			if i < 2 {
				sample = append(sample, lines)
			}
		}
		w.Flush()
		out.Close()
		emit(M{"k": "summary", "n": n, "events": events, "nontrivial": nontrivial, "sample": sample})
	}
}
