--------------------------- MODULE FailsafeTProps ---------------------------
(* Scenario normalisation and the property predicates (from the property texts) over `log`, the sequence of visible  *)
(* events of one finished scenario.  Shared by FailsafeTTrace (log = the recorded trace lines of the real library)   *)
(* and FailsafeTMC (log = the labels of the behaviour TLC is exploring).                                              *)
EXTENDS FailsafeT, SequencesExt

VARIABLE log

SetOf(seq) == {seq[j] : j \in 1..Len(seq)}
NormDesc(d) ==
  CASE d.k = "retry" -> [d EXCEPT !.h = SetOf(d.h), !.a = SetOf(d.a)]
    [] d.k = "fb" -> [d EXCEPT !.h = SetOf(d.h)]
    [] d.k = "cb" -> [d EXCEPT !.h = SetOf(d.h)]
    [] d.k = "hg" -> [d EXCEPT !.c = SetOf(d.c)]      \* d.delays stays a sequence
    [] d.k = "cache" -> [d EXCEPT !.ifc = SetOf(d.ifc)]
    [] OTHER -> d
NormCfg(c) == [c EXCEPT !.stack = [j \in 1..Len(c.stack) |-> NormDesc(c.stack[j])]]

Dummy == [objs |-> <<>>, last |-> <<>>, ast |-> <<>>, cres |-> NilPR, att |-> 0, ret |-> 0, hdg |-> 0, exe |-> 0, calls |-> 0, t0 |-> 0,
          rs |-> <<>>, final |-> NilPR, returned |-> FALSE, async |-> FALSE, cancel1 |-> FALSE, stored |-> FALSE, doneflag |-> FALSE, closed |-> FALSE, callobj |-> <<>>, spurious |-> 0, ck |-> "none"]

InitPolOf(c) ==
  LET ids == {c.stack[j].id : j \in {jj \in 1..Len(c.stack) : c.stack[jj].k \in {"cb", "bh", "rl", "cache"}}} IN
  [id \in ids |-> LET d == c.stack[CHOOSE j \in 1..Len(c.stack) : c.stack[j].k \in {"cb", "bh", "rl", "cache"} /\ c.stack[j].id = id] IN
                  IF d.k = "cb" THEN BO(d.cfg)!NewClosed ELSE IF d.k = "rl" THEN [nextFree |-> 0] ELSE IF d.k = "cache" THEN {} ELSE 0]

----------------------------------------------------------------------------
(* ---- property predicates over the visible events of one finished scenario (from the property texts) ---- *)
Idx == 1..Len(log)
EvOf(i) == log[i].ev
OfX(i, x) == "x" \in DOMAIN log[i] /\ log[i].x = x
First(S) == CHOOSE i \in S : \A j \in S : i <= j
HasStack(k) == \E j \in 1..Len(cfg.stack) : cfg.stack[j].k = k

\* C08: an execution whose cancellation had fully taken effect while it was still running attempts or waiting must report
\* the cause (never another error, never a fallback's output), starts at most one further attempt, and - when its
\* functions cooperate - completes at the instant of the cancellation
C08_OK ==
  \A x \in 1..cfg.nx :
    LET calls == {i \in Idx : EvOf(i) \in {"CtxCancel", "AsyncCancel"} /\ OfX(i, x)}
        rets == {i \in Idx : EvOf(i) = "CancelRet" /\ OfX(i, x)}
        returns == {i \in Idx : EvOf(i) = "Return" /\ OfX(i, x)} IN
    (calls # {} /\ rets # {} /\ returns # {} /\ (HasStack("retry") \/ HasStack("hg")) /\ ~HasStack("to")
       /\ First(returns) > First(rets)) =>           \* the caller got its result after the cancellation had taken effect
      LET c == First(calls)   r == First(rets)   R == log[First(returns)]
          cause == IF EvOf(c) = "CtxCancel" THEN "CtxCanceled" ELSE "ExecCanceled"
          startsAfter == {i \in Idx : i > r /\ EvOf(i) = "FnStart" /\ OfX(i, x)}
          \* the execution was demonstrably still running after the cancellation took effect
          \* (under a hedge policy losing attempts keep running after a result was accepted: only policy-level progress counts there)
          stillRunning == \E i \in Idx : i > r /\ i < First(returns) /\ OfX(i, x) /\
                             EvOf(i) \in (IF HasStack("hg") THEN {"OnRetryScheduled", "OnRetry", "OnHedge"}
                                          ELSE {"FnStart", "FnEnd", "OnRetryScheduled", "OnRetry"})
          allCoop == \A k \in 1..Len(cfg.fns[x]) : cfg.fns[x][k].coop \/ cfg.fns[x][k].d = 0
      IN /\ (stillRunning => R.e.op = cause)                                       \* Attribution
         /\ (~HasStack("hg") => Cardinality(startsAfter) <= 1)                      \* AtMostOneMoreAttempt
         /\ (stillRunning /\ allCoop /\ cfg.fnDefault.d = 0 => R.t = log[r].t)      \* Prompt
         /\ ~(\E i \in Idx : i > r /\ EvOf(i) = "FallbackFn" /\ OfX(i, x) /\ stillRunning)   \* no fallback for a cancelled execution

\* C06: never more executions inside the function (plus standalone permits) than the bulkhead allows, at any point of the log
C06_OK ==
  \A id \in DOMAIN cfg.bhmax :
    \A n \in Idx :
      LET starts == Cardinality({i \in 1..n : EvOf(i) = "FnStart"})
          ends == Cardinality({i \in 1..n : EvOf(i) = "FnEnd"})
          \* a hedge policy INSIDE the bulkhead runs several invocations of one execution under one permit, and its abandoned
          \* attempts may still be running after the permit went back: the log alone does not say who holds a permit then, and the
          \* bound is left to the trace's acceptance by the model (semaphore occupancy) and the permits probed at quiescence
          hedgeInside == \E a, b \in 1..Len(cfg.stack) : a < b /\ cfg.stack[a].k = "bh" /\ cfg.stack[a].id = id /\ cfg.stack[b].k = "hg"
          inside == IF hedgeInside THEN 0 ELSE starts - ends
          \* a standalone permit is held from the return of a successful TryAcquirePermit until ReleasePermit is called
          taken == Cardinality({i \in 1..n : EvOf(i) \in {"BhTake", "BhAcquired"} /\ log[i].ok}) - Cardinality({i \in 1..n : EvOf(i) = "BhReleaseCall"})
          \* only meaningful when every invocation runs under the bulkhead (it is in the stack of every execution)
      IN inside + taken <= cfg.bhmax[id]

\* C04: no invocation starts at an instant strictly after the breaker opened and before its delay elapsed (while it stays
\* open); in a half-open epoch the executions admitted in that epoch never exceed the trial capacity
CbIds == {cfg.stack[j].id : j \in {jj \in 1..Len(cfg.stack) : cfg.stack[jj].k = "cb"}}
C04_OK ==
  \A id \in CbIds :
    LET d == cfg.stack[CHOOSE j \in 1..Len(cfg.stack) : cfg.stack[j].k = "cb" /\ cfg.stack[j].id = id]
        sc == {i \in Idx : EvOf(i) = "StateChanged" /\ log[i].id = id}
        cap == IF d.cfg.scap # 0 THEN d.cfg.scap ELSE IF d.cfg.fexec # 0 THEN d.cfg.fexec ELSE d.cfg.fcap
        NextSc(i) == LET S == {j \in sc : j > i} IN IF S = {} THEN Len(log) + 1 ELSE First(S)
    IN \A i \in sc :
         /\ (log[i].new = "open" =>
               ~\E j \in (i + 1)..(NextSc(i) - 1) : EvOf(j) = "FnStart" /\ log[j].t > log[i].t /\ log[j].t < log[i].t + d.cfg.delay)
         /\ (log[i].new = "halfopen" =>
               \A n \in (i + 1)..(NextSc(i) - 1) :
                  LET starts == {j \in (i + 1)..n : EvOf(j) = "FnStart" /\ log[j].t > log[i].t}
                      ends == {j \in (i + 1)..n : EvOf(j) = "FnEnd" /\ \E s \in starts : log[s].x = log[j].x /\ log[s].k = log[j].k}
                  IN Cardinality(starts) - Cardinality(ends) <= cap)

\* C15: every reader gets the same values, which are the ones reported to the completion listeners; IsDone is never true
\* before the completion listeners ran; a Cancel that took effect before completion under retry/hedge reports ErrExecutionCanceled
C15_OK ==
  \A x \in 1..cfg.nx :
    LET gets == {i \in Idx : EvOf(i) \in {"GetRet", "Return"} /\ OfX(i, x)}
        dones == {i \in Idx : EvOf(i) = "ExecOnDone" /\ OfX(i, x)}
        isdone == {i \in Idx : EvOf(i) = "IsDone" /\ OfX(i, x) /\ log[i].v}
        closed == {i \in Idx : EvOf(i) = "DoneClosed" /\ OfX(i, x)} IN
    /\ \A i \in gets, j \in gets : log[i].r = log[j].r /\ log[i].e = log[j].e
    /\ (dones # {} => \A i \in gets : log[i].r = log[First(dones)].lr /\ log[i].e = log[First(dones)].le)
    /\ \A i \in isdone \cup closed \cup gets : dones # {} /\ i > First(dones)
    /\ \A i \in closed : \A j \in {jj \in Idx : jj > i /\ EvOf(jj) = "IsDone" /\ OfX(jj, x)} : log[j].v

\* C09: a hedged execution (hedge outermost, nothing re-applying it) starts at most maxHedges+1 attempts, never starts hedge k
\* before the first k hedge delays have elapsed, and returns a result produced by an attempt: a cancel-matching one when one
\* was produced at an earlier instant than every non-matching candidate, else one delivered after all attempts finished
HedgeDelayAt(p, j) == IF p.delays = <<>> THEN p.delay ELSE p.delays[(j % Len(p.delays)) + 1]
RECURSIVE SumDelays(_, _)
SumDelays(p, k) == IF k = 0 THEN 0 ELSE SumDelays(p, k - 1) + HedgeDelayAt(p, k - 1)
C09_OK ==
  (Len(cfg.stack) = 1 /\ cfg.stack[1].k = "hg") =>
    \A x \in 1..cfg.nx :
      LET p == cfg.stack[1]
          st == {i \in Idx : EvOf(i) = "Start" /\ OfX(i, x)}
          hs == {i \in Idx : EvOf(i) = "OnHedge" /\ OfX(i, x)}
          ends == {i \in Idx : EvOf(i) = "FnEnd" /\ OfX(i, x)}
          rets == {i \in Idx : EvOf(i) = "Return" /\ OfX(i, x)}
          cancelled == \E i \in Idx : EvOf(i) \in {"CtxCancel", "AsyncCancel"}
          CMatch(i) == (p.c = {}) \/ AbortsCode(p.c, log[i].r, log[i].e) IN
      (st # {} /\ rets # {} /\ ~cancelled) =>
        LET R == log[First(rets)]
            before == {i \in ends : i < First(rets)}
            winners == {i \in before : log[i].r = R.r /\ log[i].e = R.e} IN
        /\ Cardinality(hs) <= p.maxh                                                            \* AttemptBound
        /\ Cardinality({i \in Idx : EvOf(i) = "FnStart" /\ OfX(i, x)}) <= p.maxh + 1
        /\ \A i \in hs : log[i].t >= log[First(st)].t + SumDelays(p, Cardinality({j \in hs : j <= i}))   \* Spacing
        /\ winners # {}                                                                         \* WinnerIsReal
        /\ \A i \in hs : i < First(rets) \/ log[i].t = R.t                                       \* no hedge after acceptance (same instant allowed)
        /\ (\E i \in before : CMatch(i) /\ log[i].t < R.t) =>                                   \* a matching result produced strictly earlier
              \E i \in winners : CMatch(i)
        \* (a matching and a final non-matching result produced at the same instant: either may be delivered - the counter
        \*  and the sent-flag are two atomics, and "as soon as" does not order simultaneous results)
        /\ ((~\E i \in winners : CMatch(i)) => Cardinality(before) = p.maxh + 1)                \* OtherwiseAfterAll


\* every thread of the model has ended
AllEnded == \A t \in 1..Len(th) : th[t].mode = "end"
=============================================================================
