---------------------------- MODULE ClassifyTable ----------------------------
(* Enumerates the complete C12 truth table: every outcome (result x error term up to TermDepth) against    *)
(* every set of at most MaxRegs registrations.  Each initial state is one row; TLC checks the sanity       *)
(* theorems on every row and prints it for the implementation test.                                        *)
EXTENDS Classify, Json

CONSTANTS TermDepth, MaxRegs, Part, Parts   \* rows are split in Parts slices so several TLC runs share the table

VARIABLES row
vars == <<row>>

Results == {"R0", "R1", "R2"}
\* (TX: a typed error whose type has the same underlying representation as TV's - a different type all the same)
Leaves == {Leaf("E1"), Leaf("E2"), Leaf("E3"), Leaf("TV"), Leaf("TP"), Leaf("TX")}
\* (JN(x): a hand-written multi-error whose Unwrap() []error is [nil, x])
Grow(S) == S \cup {Wrap("W", x) : x \in S} \cup {Wrap("WT", x) : x \in S} \cup {Wrap("JN", x) : x \in S} \cup {Join(x, y) : x \in S, y \in S}
RECURSIVE TermsUpTo(_)
TermsUpTo(d) == IF d = 0 THEN Leaves ELSE Grow(TermsUpTo(d - 1))
\* depth 2 is restricted to wrappers over depth-1 terms and joins with a leaf on one side (keeps the table finite and useful)
Terms == IF TermDepth <= 1 THEN TermsUpTo(TermDepth)
         ELSE LET T1 == TermsUpTo(1) IN
              T1 \cup {Wrap("W", x) : x \in T1} \cup {Wrap("WT", x) : x \in T1} \cup {Wrap("JN", x) : x \in Leaves}
                 \cup {Join(x, y) : x \in T1, y \in Leaves} \cup {Join(y, x) : x \in T1, y \in Leaves}
Errors == {Nil} \cup Terms

Regs == { [t |-> "errors", v |-> "E1"], [t |-> "errors", v |-> "E2"],
          [t |-> "types", v |-> "TV"], [t |-> "types", v |-> "TP"], [t |-> "types", v |-> "WT"],
          [t |-> "result", v |-> "R0"], [t |-> "result", v |-> "R1"],
          [t |-> "if", v |-> "p1"], [t |-> "if", v |-> "p2"] }
CondSets == {S \in SUBSET Regs : Cardinality(S) <= MaxRegs}

\* a cheap deterministic slice number for a row
RECURSIVE Size(_)
Size(e) == 1 + (IF Len(e.ch) = 0 THEN 0 ELSE IF Len(e.ch) = 1 THEN Size(e.ch[1]) ELSE Size(e.ch[1]) + 2 * Size(e.ch[2]))
SliceOf(c, r, e) == (Cardinality(c) + Size(e) + (IF r = "R0" THEN 0 ELSE IF r = "R1" THEN 1 ELSE 2)) % Parts

RowOf(c, r, e) ==
  [conds |-> c, r |-> r, e |-> e,
   fail |-> IsFailure(c, r, e), abort |-> IsAbortable(c, r, e), cancel |-> IsCancellable(c, r, e)]

Init == \E c \in CondSets, r \in Results, e \in Errors : SliceOf(c, r, e) = Part /\ row = RowOf(c, r, e)
Next == UNCHANGED row
Spec == Init /\ [][Next]_vars

\* ---- sanity theorems, checked on every row ----
\* success needs no error or an explicitly unhandled one; an error nobody inspects is always a failure
DefaultRule == (~IsNil(row.e) /\ ~\E c \in row.conds : InspectsErrors(c)) => row.fail
NoErrNoMatch == (IsNil(row.e) /\ ~\E c \in row.conds : Matches(c, row.r, row.e)) => ~row.fail
\* adding a registration never turns a failure into a success once some registration inspects errors
Monotone == \A c \in Regs :
               (row.fail /\ \E x \in row.conds : InspectsErrors(x)) => IsFailure(row.conds \cup {c}, row.r, row.e)
\* a handled-result registration never applies to an outcome that carries an error
ResultOnlyWithoutError ==
  (~IsNil(row.e) /\ row.conds # {} /\ \A c \in row.conds : c.t = "result") => row.fail    \* by the default rule, not by the match
AbortNeverWithoutRegs == row.conds = {} => row.abort = "no"

Emit == PrintT(ToJson(row))
=============================================================================
