------------------------------ MODULE FailsafeT ------------------------------
(* The failsafe-go execution machine with THREADS and TIME: several executions through one policy stack,    *)
(* the goroutines the policies start (timeout timers, hedge attempts, the async runner), the execution /    *)
(* context tree with the shared cancellation result, blocking waits and the virtual clock.                  *)
(*                                                                                                          *)
(* One action = one step of one thread between two points where it touches shared state or blocks: a        *)
(* mutex-protected operation of the execution (RecordResult, InitializeRetry, Cancel, IsCanceledWithResult),*)
(* an atomic (the timeout's two CompareAndSwaps, the hedge's counter / flag / channel), a select with its    *)
(* ready cases as alternatives, a semaphore operation, a call into user code (visible: labelled with what    *)
(* the harness logs).  Time advances only when no thread can step (the testing/synctest rule), to the next   *)
(* timer.  The environment (start executions, cancel contexts, cancel async results, take bulkhead permits) *)
(* is a script of timed actions in cfg.env; the wrapped function follows cfg.fns (duration, outcome,         *)
(* whether it returns early on cancellation).                                                                *)
(*                                                                                                          *)
(* Steps(S, t) is the set of possible steps [S: next state, lab: label] of thread t in state S.              *)
EXTENDS FailsafeBase, Json, TLC

VARIABLES cfg, pol, now, xs, th, envi, acqc      \* acqc: standalone acquirers whose context has been cancelled
tvars == <<cfg, pol, now, xs, th, envi, acqc>>

Stack == cfg.stack
N == Len(Stack)
NilPR == PR("NILPR", Nil, FALSE, FALSE, FALSE)
NoLab == [ev |-> "-"]
NoX == [nx |-> 0]          \* "no extra payload" (ignored when a label is matched against a trace line)
NoWait == [k |-> "-", until |-> -1, coop |-> FALSE, kk |-> 0]
\* hedge delay: fixed, or a delay function of the execution (the harness' function indexes a list by Hedges())
\* cachepolicy getCacheKey: a string key in the execution's context wins (also the empty one), else the configured key
CacheKeyT(p, ck) == IF ck \in {"none", "nonstring"} THEN p.key ELSE ck
HedgeDelay(p, hedgesSoFar) == IF p.delays = <<>> THEN p.delay ELSE p.delays[(hedgesSoFar % Len(p.delays)) + 1]
Min2(a, b) == IF a < b THEN a ELSE b

----------------------------------------------------------------------------
(* ---- execution objects (copies of the execution with their contexts) ---- *)
(* Cancelling a context is NOT one step for its descendants (context.cancelCtx.cancel: the context's own error is    *)
(* stored first - an atomic that Err() and Done() read without the lock - and the children are cancelled one by one   *)
(* afterwards, before cancel() returns).  objs[d].lag = the thread whose cancel() call has not reached descendant d   *)
(* yet (0: none); lagm = that call is made inside execution.Cancel, i.e. under the execution mutex, so that a reader   *)
(* that takes the mutex first (IsCanceledWithResult, Cancel, IsCanceled) waits for it and sees it complete.            *)
RECURSIVE Canceled(_, _), Err(_, _), CanceledF(_, _), ErrF(_, _), TrulyCanceled(_, _), IsUnder(_, _, _)
\* as seen by a reader holding the execution mutex
Canceled(X, o) == o # 0 /\ (X.objs[o].can \/ ((X.objs[o].lag = 0 \/ X.objs[o].lagm) /\ Canceled(X, X.objs[o].par)))
\* ctx.Err(): a context cancelled through its parent reports the parent's error
Err(X, o) == IF o = 0 THEN Nil ELSE IF X.objs[o].can THEN Leaf(X.objs[o].cause) ELSE Err(X, X.objs[o].par)
\* as seen by a reader that takes no lock (ctx.Done() in a select, ctx.Err() in LastError())
CanceledF(X, o) == o # 0 /\ (X.objs[o].can \/ (X.objs[o].lag = 0 /\ CanceledF(X, X.objs[o].par)))
ErrF(X, o) == Err(X, o)
TrulyCanceled(X, o) == o # 0 /\ (X.objs[o].can \/ TrulyCanceled(X, X.objs[o].par))
IsUnder(X, d, o) == d # 0 /\ (X.objs[d].par = o \/ IsUnder(X, X.objs[d].par, o))
\* cancel(): by thread ow (0: before anything else runs - nothing can observe the propagation), m: under the execution mutex
CancelCtx(X, o, cause, ow, m) ==
  IF TrulyCanceled(X, o) THEN X
  ELSE [X EXCEPT !.objs = [d \in 1..Len(X.objs) |->
           IF d = o THEN [X.objs[d] EXCEPT !.can = TRUE, !.cause = cause]
           ELSE IF ow # 0 /\ IsUnder(X, d, o) /\ ~TrulyCanceled(X, d) THEN [X.objs[d] EXCEPT !.lag = ow, !.lagm = m]
           ELSE X.objs[d]]]
\* the cancel() calls of thread t that are still under way, and the step that reaches one more descendant
Lagging(X, t) == {d \in 1..Len(X.objs) : X.objs[d].lag = t}
NewObj(X, par, hedge) ==
  [X EXCEPT !.objs = Append(@, [par |-> par, can |-> FALSE, cause |-> "-", hedge |-> hedge \/ X.objs[par].hedge, cf |-> TRUE, lag |-> 0, lagm |-> FALSE]),
            !.last = Append(@, X.last[par]), !.ast = Append(@, X.ast[par])]

\* execution.IsCanceledWithResult (under the execution mutex)
CancelResult(X, o) == IF X.cres = NilPR THEN Failure(Err(X, o)) ELSE X.cres
\* execution.Cancel(result) (under the mutex): no-op when already cancelled; records the result in the cell shared by all
\* copies, then cancels this copy's context if it has a cancel function
CancelExec(X, o, result, ow) ==
  IF Canceled(X, o) THEN X
  ELSE LET X1 == [X EXCEPT !.cres = result, !.last[o] = IF result = NilPR THEN @ ELSE Pair(result.r, result.e)] IN
       IF X.objs[o].cf THEN CancelCtx(X1, o, "CtxCanceled", ow, TRUE) ELSE X1

----------------------------------------------------------------------------
(* ---- state threading ---- *)
TT(S, t) == S.th[t]
XX(S, t) == S.xs[S.th[t].x]
SetX(S, t, X) == [S EXCEPT !.xs[S.th[t].x] = X]
Goto(S, t, mode, i) == [S EXCEPT !.th[t].mode = mode, !.th[t].i = i]
Ret(S, t, j, pr) == [S EXCEPT !.th[t].mode = "up", !.th[t].i = j, !.th[t].res = pr]
Desc(S, t) == [S EXCEPT !.th[t].i = @ + 1, !.th[t].mode = "down"]
Block(S, t, w) == [S EXCEPT !.th[t].mode = "wait", !.th[t].w = w]
End(S, t) == [S EXCEPT !.th[t].mode = "end"]
One(S2, lab) == {[S |-> S2, lab |-> lab]}
Silent(S2) == One(S2, NoLab)

NewThread(x, kind, mode, i, obj, pt, pl, idx, w) ==
  [x |-> x, kind |-> kind, mode |-> mode, i |-> i, res |-> NilPR, obj |-> obj, w |-> w,
   cell |-> [j \in 1..N |-> "-"], cellres |-> [j \in 1..N |-> NilPR],
   hg |-> [j \in 1..N |-> [count |-> 0, sent |-> FALSE, chan |-> <<>>, n |-> 0, aobj |-> <<>>, gen |-> 0]],
   gen |-> 0,
   oldobj |-> [j \in 1..N |-> 0], pt |-> pt, pl |-> pl, idx |-> idx, sub |-> "-", snap |-> NoLast]

\* what user code reads from the execution it is handed (counters are shared atomics; last result is per copy)
\* (StartTime() is the instant the execution started, whichever copy is asked; ElapsedTime() is measured from it)
Snap(X, last) == [att |-> X.att, exe |-> X.exe, ret |-> X.ret, hdg |-> X.hdg, lr |-> last.r, le |-> last.e, st |-> X.t0, el |-> now - X.t0]
\* events that hand user code an ExecutionAttempt: LastError() reports the context's error when there is no last error and
\* the copy's context is done (execution.go LastError); o = the copy the event is built from
LabA(ev, S, t, layer, last, extra, o) ==
  LET X == XX(S, t)
      last2 == IF IsNil(last.e) /\ CanceledF(X, o) THEN Pair(last.r, ErrF(X, o)) ELSE last IN
  \* AttemptStartTime() belongs to the copy: set when the execution starts and by InitializeRetry, inherited by copies
  \* IsFirstAttempt() / IsRetry() are read from the shared attempts counter, IsHedge() belongs to the copy
  [ev |-> ev, x |-> S.th[t].x, L |-> layer] @@ Snap(X, last2) @@ [ast |-> X.ast[o], ael |-> now - X.ast[o]]
     @@ [first |-> X.att = 1, retry |-> X.att > 1, ishedge |-> X.objs[o].hedge] @@ extra
\* events built from ExecutionInfo + explicit result/error (done events)
LabD(ev, S, t, layer, last, extra) ==
  [ev |-> ev, x |-> S.th[t].x, L |-> layer] @@ Snap(XX(S, t), last) @@ extra
Lab(ev, S, t, layer, last, extra) == LabA(ev, S, t, layer, last, extra, S.th[t].obj)

----------------------------------------------------------------------------
(* ---- Down: thread t enters layer i ---- *)
DownSteps(S, t) ==
  LET T == TT(S, t)   X == XX(S, t)   i == T.i   o == T.obj IN
  IF i = N + 1 /\ T.sub = "-" THEN
     \* executor.execute's outerFn: the function gets a copy of the execution taken now (under the mutex) ...
     Silent([S EXCEPT !.th[t].sub = "call", !.th[t].snap = X.last[o]])
  ELSE IF i = N + 1 THEN
     \* ... and is invoked: next entry of the execution's script
     LET k == X.calls + 1
         f == IF k <= Len(cfg.fns[T.x]) THEN cfg.fns[T.x][k] ELSE cfg.fnDefault
         X1 == [X EXCEPT !.calls = k, !.callobj = Append(@, o)]
         S1 == [Block(SetX(S, t, X1), t, [k |-> "fn", until |-> now + f.d, coop |-> f.coop, kk |-> k]) EXCEPT !.th[t].sub = "-"]
     IN One(S1, Lab("FnStart", S, t, N + 1, T.snap, [k |-> k, hedge |-> X.objs[o].hedge, canceled |-> CanceledF(X, o)]))
  ELSE
  LET p == Stack[i] IN
  CASE p.k \in {"retry", "fb"} -> Silent(Desc(S, t))
    [] p.k = "to" ->
         \* CopyForCancellable, AfterFunc(limit), then the inner layers run on the copy
         LET X1 == NewObj(X, o, FALSE)   c == Len(X1.objs)
             tm == NewThread(T.x, "timer", "wait", i, c, t, i, 0, [k |-> "sleep", until |-> now + p.limit, coop |-> FALSE, kk |-> 0])
             S1 == [SetX(S, t, X1) EXCEPT !.th = Append(@, tm), !.th[t].cell[i] = "nil", !.th[t].obj = c,
                                          !.th[t].i = i + 1, !.th[t].oldobj[i] = o]
         IN Silent(S1)
    [] p.k = "hg" ->
         LET X1 == NewObj(X, o, FALSE)   c == Len(X1.objs)
             \* (each application of the hedge policy has its own counter / flag / channel: attempts of an earlier
             \*  application that are still running carry the earlier generation and no longer matter)
             g == T.hg[i].gen + 1
             at == [NewThread(T.x, "att", "down", i + 1, c, t, i, 0, NoWait) EXCEPT !.gen = g]
             S1 == [SetX(S, t, X1) EXCEPT !.th = Append(@, at),
                                          !.th[t].hg[i] = [count |-> 0, sent |-> FALSE, chan |-> <<>>, n |-> 1, aobj |-> <<c>>, gen |-> g]]
         IN Silent(Block(S1, t, [k |-> "hedge", until |-> IF p.maxh > 0 THEN now + HedgeDelay(p, X.hdg) ELSE -1, coop |-> FALSE, kk |-> 0]))
    [] p.k = "cb" ->
         LET a == BO(p.cfg)!TryAcq(S.pol[p.id], now)
             S1 == [S EXCEPT !.pol[p.id] = a.b] IN
         IF a.ret THEN One(Desc(S1, t), IF a.ev = <<>> THEN NoLab ELSE [ev |-> "StateChanged", id |-> p.id, old |-> a.ev[1].old, new |-> a.ev[1].new])
         ELSE Silent(Ret(S1, t, i - 1, Failure(Leaf("ErrOpen"))))
    [] p.k = "rl" ->
         \* smooth limiter (ratelimiterstats.go smoothStats.acquirePermits, one permit), then wait on a timer or the
         \* execution's cancellation; refused (ErrExceeded, no state change) when the wait exceeds the max wait time
         LET st == S.pol[p.id]
             nn == IF now >= st.nextFree THEN (now - (now % p.ival)) + p.ival ELSE st.nextFree + p.ival
             w0 == nn - now - p.ival
             w == IF w0 < 0 THEN 0 ELSE w0 IN
         IF w > p.wait THEN Silent([S EXCEPT !.th[t].mode = "onrl"])
         ELSE Silent(Block([S EXCEPT !.pol[p.id] = [nextFree |-> nn]], t, [k |-> "rl", until |-> now + w, coop |-> TRUE, kk |-> 0]))
    [] p.k = "cache" ->
         \* PreExecute: key (a string key in the execution's context wins over the configured one; no key: no cache access);
         \* cache.Get (the harness' cache logs the call and its answer inside its own lock); OnCacheHit and the cached
         \* value go up, or OnCacheMiss (on a copy of the execution taken first) and the inner layers run
         LET key == CacheKeyT(p, X.ck) IN
         (CASE T.sub = "-" /\ key = "" -> Silent([S EXCEPT !.th[t].sub = "miss", !.th[t].snap = X.last[o]])
           [] T.sub = "-" /\ key # "" ->
                LET hit == {e \in S.pol[p.id] : e.k = key}
                    v == IF hit = {} THEN "R0" ELSE (CHOOSE e \in hit : TRUE).v IN
                One([S EXCEPT !.th[t].sub = IF hit = {} THEN "miss0" ELSE "hit", !.th[t].res = PR(v, Nil, TRUE, TRUE, TRUE)],
                    [ev |-> "CacheGet", L |-> i, key |-> key, found |-> hit # {}, v |-> v])
           [] T.sub = "hit" -> One([Ret(S, t, i - 1, T.res) EXCEPT !.th[t].sub = "-"], LabD("OnCacheHit", S, t, i, Pair(T.res.r, Nil), NoX))
           [] T.sub = "miss0" -> Silent([S EXCEPT !.th[t].sub = "miss", !.th[t].snap = X.last[o]])
           [] T.sub = "miss" -> One([Desc(S, t) EXCEPT !.th[t].sub = "-"], Lab("OnCacheMiss", S, t, i, T.snap, NoX)))
    [] p.k = "bh" ->
         \* phase 1: select { ctx.Done / semaphore <- / default }
         LET canc == CanceledF(X, o)   free == S.pol[p.id] < p.max IN
         (IF canc THEN Silent(Ret(S, t, i - 1, Failure(Err(X, o)))) ELSE {})
         \cup (IF free THEN Silent(Desc([S EXCEPT !.pol[p.id] = @ + 1], t)) ELSE {})
         \cup (IF ~canc /\ ~free
               THEN IF p.wait = 0 THEN Silent([S EXCEPT !.th[t].mode = "onfull"])
                    ELSE Silent(Block(S, t, [k |-> "bh", until |-> now + p.wait, coop |-> FALSE, kk |-> 0]))
               ELSE {})

----------------------------------------------------------------------------
(* ---- Up: thread t is back at layer i with the result of what the layer wraps ---- *)
\* the retry layer is several steps (T.sub says where the thread is inside it)
RetrySteps(S, t) ==
  LET T == TT(S, t)   X == XX(S, t)   i == T.i   o == T.obj   p == Stack[i]   pr == T.res   last == Pair(pr.r, pr.e) IN
  CASE T.sub = "-" ->
         \* IsCanceledWithResult right after the inner call (mutex)
         IF Canceled(X, o) THEN Silent(Ret(S, t, i - 1, CancelResult(X, o)))
         ELSE Silent([S EXCEPT !.th[t].sub = "pe"])
    [] T.sub = "pe" ->
         \* retriesExceeded? else PostExecute: classify, policy listener
         IF X.rs[i].exceeded THEN Silent([Ret(S, t, i - 1, pr) EXCEPT !.th[t].sub = "-"])
         ELSE IF ~IsFailureX(p.h, pr.r, pr.e)
         THEN One([Ret(S, t, i - 1, WithDone(pr, TRUE, TRUE)) EXCEPT !.th[t].sub = "-"], Lab("OnSuccess", S, t, i, last, NoX))
         ELSE One([S EXCEPT !.th[t].sub = "f1"], Lab("OnFailure", S, t, i, last, NoX))
    [] T.sub = "f1" ->
         \* retry executor's OnFailure: count, limits, abort; listeners
         LET f == X.rs[i].failed + 1
             elapsed == now - X.t0
             ex == (p.max # -1 /\ f > p.max) \/ (p.maxd # 0 /\ elapsed > p.maxd)
             ab == AbortsCode(p.a, pr.r, pr.e)
             X1 == [X EXCEPT !.rs[i] = [failed |-> f, exceeded |-> ex]]
             S1 == SetX(S, t, X1)
             nxt == IF ab THEN "abort" ELSE IF ex THEN "exceeded" ELSE "f2" IN
         Silent([S1 EXCEPT !.th[t].sub = nxt])
    [] T.sub = "abort" ->
         One([S EXCEPT !.th[t].sub = IF X.rs[i].exceeded THEN "exceeded2" ELSE "f2"], Lab("OnAbort", S, t, i, last, NoX))
    [] T.sub = "exceeded" ->
         One([S EXCEPT !.th[t].sub = "exceeded2"], Lab("OnRetriesExceeded", S, t, i, last, NoX))
    [] T.sub = "exceeded2" ->
         IF ~p.rlf THEN Silent([Ret(S, t, i - 1, Failure(Exceeded(pr.r, pr.e))) EXCEPT !.th[t].sub = "-"])
         ELSE Silent([Ret(S, t, i - 1, WithDone(WithFailure(pr), TRUE, FALSE)) EXCEPT !.th[t].sub = "-"])
    [] T.sub = "f2" ->
         LET ab == AbortsCode(p.a, pr.r, pr.e)
             shouldRetry == ~ab /\ ~X.rs[i].exceeded /\ (p.max = -1 \/ p.max > 0) IN
         IF ab \/ ~shouldRetry THEN Silent([Ret(S, t, i - 1, WithDone(WithFailure(pr), TRUE, FALSE)) EXCEPT !.th[t].sub = "-"])
         ELSE \* RecordResult (mutex)
              IF Canceled(X, o) THEN Silent([Ret(S, t, i - 1, CancelResult(X, o)) EXCEPT !.th[t].sub = "-"])
              ELSE Silent([SetX(S, t, [X EXCEPT !.last[o] = last]) EXCEPT !.th[t].sub = "sched"])
    [] T.sub = "sched" ->
         LET elapsed == now - X.t0
             dl0 == IF p.maxd # 0 THEN Min2(p.dly, p.maxd - elapsed) ELSE p.dly
             dl == IF dl0 < 0 THEN 0 ELSE dl0 IN
         One([Block(S, t, [k |-> "rdelay", until |-> now + dl, coop |-> TRUE, kk |-> 0]) EXCEPT !.th[t].sub = "init"],
             Lab("OnRetryScheduled", S, t, i, last, [delay |-> dl]))
    [] T.sub = "init" ->
         \* InitializeRetry (mutex): cancelled => the cancellation result; else count the retry and clear the shared cell
         IF Canceled(X, o) THEN Silent([Ret(S, t, i - 1, CancelResult(X, o)) EXCEPT !.th[t].sub = "-"])
         ELSE Silent([SetX(S, t, [X EXCEPT !.att = @ + 1, !.ret = @ + 1, !.cres = NilPR, !.ast[o] = now]) EXCEPT !.th[t].sub = "onretry"])
    [] T.sub = "onretry" ->
         One([Desc(S, t) EXCEPT !.th[t].sub = "-"], Lab("OnRetry", S, t, i, last, NoX))

FallbackSteps(S, t) ==
  LET T == TT(S, t)   X == XX(S, t)   i == T.i   o == T.obj   p == Stack[i]   pr == T.res   last == Pair(pr.r, pr.e) IN
  CASE T.sub = "-" ->
         IF IsFailureX(p.h, pr.r, pr.e)
         \* (p.fld: the OnFailure listener takes that long - the cancellation check comes after it)
         THEN One(IF "fld" \in DOMAIN p /\ p.fld > 0
                  THEN [Block(S, t, [k |-> "sleep", until |-> now + p.fld, coop |-> FALSE, kk |-> 0]) EXCEPT !.th[t].sub = "c1"]
                  ELSE [S EXCEPT !.th[t].sub = "c1"],
                  Lab("OnFailure", S, t, i, last, NoX))
         ELSE One(Ret(S, t, i - 1, WithDone(pr, TRUE, TRUE)), Lab("OnSuccess", S, t, i, last, NoX))
    [] T.sub = "c1" ->      \* IsCanceledWithResult before running the fallback (mutex)
         IF Canceled(X, o) THEN Silent([Ret(S, t, i - 1, CancelResult(X, o)) EXCEPT !.th[t].sub = "-"])
         ELSE Silent([S EXCEPT !.th[t].sub = "fn"])
    [] T.sub = "fn" -> One([S EXCEPT !.th[t].sub = "c2"], Lab("FallbackFn", S, t, i, last, NoX))
    [] T.sub = "c2" ->      \* ... and after it
         IF Canceled(X, o) THEN Silent([Ret(S, t, i - 1, CancelResult(X, o)) EXCEPT !.th[t].sub = "-"])
         ELSE Silent([S EXCEPT !.th[t].sub = "ev"])
    [] T.sub = "ev" ->
         LET ok == ~IsFailureX(p.h, p.fr, p.fe) IN
         One([Ret(S, t, i - 1, PR(p.fr, p.fe, TRUE, ok, ok)) EXCEPT !.th[t].sub = "-"],
             LabD("OnFallbackExecuted", S, t, i, Pair(p.fr, p.fe), NoX))

\* cancel every other started attempt, one execution.Cancel(nil) at a time (T.sub counts through them)
HedgeCancelLosers(S, t, i, win, res) ==
  LET T == TT(S, t)   X == XX(S, t)   h == T.hg[i]
      losers == {j \in 1..Len(h.aobj) : j # win}
      RECURSIVE CancelAll(_, _)
      CancelAll(Xc, Js) == IF Js = {} THEN Xc ELSE LET j == CHOOSE j \in Js : \A j2 \in Js : j <= j2 IN CancelAll(CancelExec(Xc, h.aobj[j], NilPR, t), Js \ {j})
  IN SetX(Ret(S, t, i - 1, res), t, CancelAll(X, losers))

UpSteps(S, t) ==
  LET T == TT(S, t)   X == XX(S, t)   i == T.i   o == T.obj   pr == T.res   last == Pair(pr.r, pr.e) IN
  IF i = 0 THEN
     \* executor.execute's epilogue, then the caller (or the async result) gets the result
     CASE T.sub = "-" -> One([S EXCEPT !.th[t].sub = "done"], LabD(IF pr.sall THEN "ExecOnSuccess" ELSE "ExecOnFailure", S, t, 0, last, NoX))
       [] T.sub = "done" -> One([S EXCEPT !.th[t].sub = "ret"], LabD("ExecOnDone", S, t, 0, last, NoX))
       [] T.sub = "ret" ->
            IF X.async
            THEN \* executionResult.record, first step: result.Store
                 Silent([SetX(S, t, [X EXCEPT !.final = pr, !.stored = TRUE]) EXCEPT !.th[t].sub = "rec2"])
            ELSE One(End(SetX(S, t, [X EXCEPT !.final = pr, !.returned = TRUE]), t), [ev |-> "Return", x |-> T.x, r |-> pr.r, e |-> pr.e])
       [] T.sub = "rec2" -> Silent([SetX(S, t, [X EXCEPT !.doneflag = TRUE]) EXCEPT !.th[t].sub = "rec3"])      \* done.Store(true)
       [] T.sub = "rec3" -> Silent(End(SetX(S, t, [X EXCEPT !.closed = TRUE, !.returned = TRUE]), t))              \* close(doneChan)
  ELSE IF T.kind = "att" /\ i = T.pl THEN
     \* a hedge attempt's goroutine after innerFn returned: resultCount.Add(1) ...
     LET p == Stack[i]   M == S.th[T.pt]   h == M.hg[i] IN
     IF T.gen # h.gen THEN Silent(End(S, t))          \* an attempt of an earlier application: its counter / channel are garbage
     ELSE IF T.sub = "-" THEN
        LET cnt == h.count + 1 IN
        Silent([S EXCEPT !.th[T.pt].hg[i].count = cnt, !.th[t].sub = IF cnt = p.maxh + 1 THEN "final" ELSE "notfinal"])
     ELSE
     \* ... then, separately: cancellable?, resultSent.CompareAndSwap, send
        LET final == T.sub = "final"
            canc == (p.c = {}) \/ AbortsCode(p.c, pr.r, pr.e)
            send == (final \/ canc) /\ ~h.sent
            h1 == [h EXCEPT !.sent = @ \/ send, !.chan = IF send THEN <<[res |-> pr, idx |-> T.idx + 1]>> ELSE @]
        IN Silent(End([S EXCEPT !.th[T.pt].hg[i] = h1], t))
  ELSE
  LET p == Stack[i] IN
  CASE p.k = "retry" -> RetrySteps(S, t)
    [] p.k = "fb" -> FallbackSteps(S, t)
    [] p.k = "cb" ->
         LET fail == IsFailureX(p.h, pr.r, pr.e) IN
         IF T.sub = "-" THEN One([S EXCEPT !.th[t].sub = "rec"], Lab(IF fail THEN "OnFailure" ELSE "OnSuccess", S, t, i, last, NoX))
         ELSE \* recordSuccess / recordFailure under the breaker mutex (state listeners are called inside it)
              LET r == BO(p.cfg)!RecordD(S.pol[p.id], ~fail, now, IF fail THEN DfnOf(p) ELSE -1)   \* the delay function is asked about a failure only
                  S1 == [S EXCEPT !.pol[p.id] = r.b, !.th[t].sub = "-"] IN
              One(Ret(S1, t, i - 1, IF fail THEN WithFailure(pr) ELSE WithDone(pr, TRUE, TRUE)),
                  IF r.ev = <<>> THEN NoLab ELSE [ev |-> "StateChanged", id |-> p.id, old |-> r.ev[1].old, new |-> r.ev[1].new])
    [] p.k = "rl" -> Silent(Ret(S, t, i - 1, pr))                \* its own Apply: no PostExecute
    [] p.k = "bh" -> Silent(Ret([S EXCEPT !.pol[p.id] = @ - 1], t, i - 1, pr))
    [] p.k = "cache" ->
         \* PostExecute: cacheable (no conditions: no error; else any CacheIf condition) and a key => cache.Set, then OnResultCached
         LET key == CacheKeyT(p, X.ck)
             should == (p.ifc = {} /\ IsNil(pr.e)) \/ (\E c \in p.ifc : MatchesX(c, pr.r, pr.e)) IN
         IF T.sub = "-" THEN
            IF should /\ key # ""
            THEN One([S EXCEPT !.pol[p.id] = {e \in @ : e.k # key} \cup {[k |-> key, v |-> pr.r]}, !.th[t].sub = "cached"],
                     [ev |-> "CacheSet", L |-> i, key |-> key, v |-> pr.r])
            ELSE Silent(Ret(S, t, i - 1, pr))
         ELSE One([Ret(S, t, i - 1, pr) EXCEPT !.th[t].sub = "-"], Lab("OnResultCached", S, t, i, last, NoX))
    [] p.k = "to" ->
         \* main side: CompareAndSwap(nil, inner); Stop the timer when it won; PostExecute(result.Load())
         LET won == T.cell[i] = "nil"
             res2 == IF won THEN pr ELSE Failure(Leaf("TimeoutExceeded"))
             out == IF IsX(res2.e, "TimeoutExceeded") THEN WithFailure(res2) ELSE WithDone(res2, TRUE, TRUE)
             \* the timer of this application (still asleep) is stopped when the inner result won
             tms == {u \in 1..Len(S.th) : S.th[u].kind = "timer" /\ S.th[u].pt = t /\ S.th[u].pl = i /\ S.th[u].mode = "wait" /\ S.th[u].sub = "-"}
             S1 == IF won THEN [S EXCEPT !.th = [u \in 1..Len(S.th) |-> IF u \in tms THEN [S.th[u] EXCEPT !.mode = "end"] ELSE S.th[u]]] ELSE S
         IN Silent([Ret(S1, t, i - 1, out) EXCEPT !.th[t].cell[i] = IF won THEN "inner" ELSE @, !.th[t].obj = T.oldobj[i]])
    [] p.k = "hg" -> {}      \* the hedging thread itself only ever waits at this layer (see WakeSteps)

\* ---- the timeout's timer goroutine ----
TimerSteps(S, t) ==
  LET T == TT(S, t)   X == XX(S, t)   M == S.th[T.pt]   i == T.pl IN
  CASE T.sub = "-" ->       \* CompareAndSwap(nil, timeoutResult)
         IF M.cell[i] = "nil" THEN Silent([S EXCEPT !.th[T.pt].cell[i] = "to", !.th[t].sub = "listen", !.th[t].mode = "up"])
         ELSE Silent(End(S, t))
    [] T.sub = "listen" ->  \* OnTimeoutExceeded (the listener may take time)
         One(IF cfg.tld > 0 THEN [Block(S, t, [k |-> "sleep", until |-> now + cfg.tld, coop |-> FALSE, kk |-> 0]) EXCEPT !.th[t].sub = "cancel"]
             ELSE [S EXCEPT !.th[t].sub = "cancel"],
             [ev |-> "OnTimeoutExceeded", x |-> T.x, L |-> i])
    [] T.sub = "cancel" ->  \* execInternal.Cancel(timeoutResult)
         Silent(End(SetX(S, t, CancelExec(X, T.obj, Failure(Leaf("TimeoutExceeded")), t)), t))

\* ---- a goroutine of the environment cancelling something: the call's start and return are visible, the change is not ----
CancellerSteps(S, t) ==
  LET T == TT(S, t)   X == XX(S, t) IN
  CASE T.sub = "ctx" -> Silent([SetX(S, t, CancelCtx(X, 1, "CtxCanceled", t, FALSE)) EXCEPT !.th[t].sub = "ret"])
    \* the caller's context reaches its deadline: the runtime's timer cancels it (nothing of this is visible to the harness)
    [] T.sub = "deadline" -> Silent(End(SetX(S, t, CancelCtx(X, 1, "CtxDeadline", t, FALSE)), t))
    \* ExecutionResult.Cancel: execution.Cancel(ErrExecutionCanceled result) under the mutex ...
    [] T.sub = "async1" ->
         LET S1 == [SetX(S, t, [CancelExec(X, 2, Failure(Leaf("ExecCanceled")), t) EXCEPT !.cancel1 = TRUE]) EXCEPT !.th[t].sub = "async2"] IN
         \* (the harness can hold the canceller between the two halves for T.idx units: hook "asyncCancel.mid")
         IF T.idx > 0 THEN Silent([S1 EXCEPT !.th[t].mode = "wait", !.th[t].w = [k |-> "csleep", until |-> now + T.idx, coop |-> FALSE, kk |-> 0]])
         ELSE Silent(S1)
    \* ... then, separately, the result's own cancelFunc()
    [] T.sub = "async2" -> Silent([SetX(S, t, CancelCtx(X, 2, "CtxCanceled", t, FALSE)) EXCEPT !.th[t].sub = "ret"])
    [] T.sub = "ret" -> One(End(S, t), [ev |-> "CancelRet", x |-> T.x])

----------------------------------------------------------------------------
(* ---- blocked threads: which select cases are ready, and what happens when one is taken ---- *)
WakeSteps(S, t) ==
  LET T == TT(S, t)   X == XX(S, t)   w == T.w   i == T.i   o == T.obj IN
  CASE w.k = "fn" ->
         LET f == IF w.kk <= Len(cfg.fns[T.x]) THEN cfg.fns[T.x][w.kk] ELSE cfg.fnDefault
             early == w.coop /\ CanceledF(X, o)
             \* what the function reads from its copy of the execution when it ends: the copy's last result, and LastError() =
             \* the copy's last error, else the context's error once the copy's context is done
             lastNow == IF IsNil(T.snap.e) /\ CanceledF(X, o) THEN Pair(T.snap.r, ErrF(X, o)) ELSE T.snap
         IN (IF early THEN One([S EXCEPT !.th[t].mode = "fnret", !.th[t].res = PR("R0", Leaf("ECoop"), TRUE, TRUE, TRUE), !.th[t].w = NoWait],
                                 [ev |-> "FnEnd", x |-> T.x, k |-> w.kk, r |-> "R0", e |-> Leaf("ECoop"), canceled |-> TRUE, lr |-> lastNow.r, le |-> lastNow.e]) ELSE {})
            \cup (IF w.until <= now THEN One([S EXCEPT !.th[t].mode = "fnret", !.th[t].res = PR(f.r, f.e, TRUE, TRUE, TRUE), !.th[t].w = NoWait],
                                 [ev |-> "FnEnd", x |-> T.x, k |-> w.kk, r |-> f.r, e |-> f.e, canceled |-> CanceledF(X, o), lr |-> lastNow.r, le |-> lastNow.e]) ELSE {})
    [] w.k = "rdelay" ->
         IF w.until <= now \/ CanceledF(X, o) THEN Silent([S EXCEPT !.th[t].mode = "up", !.th[t].w = NoWait]) ELSE {}
    [] w.k = "sleep" ->
         IF w.until <= now THEN Silent([S EXCEPT !.th[t].mode = "up", !.th[t].w = NoWait]) ELSE {}
    [] w.k = "rl" ->
         \* select { timer / exec.Canceled() }: cancelled => the failure is exec.LastError() (last error, else the context's)
         (IF w.until <= now THEN Silent([Desc(S, t) EXCEPT !.th[t].w = NoWait]) ELSE {})
         \cup (IF CanceledF(X, o)
               THEN LET le == IF IsNil(X.last[o].e) THEN ErrF(X, o) ELSE X.last[o].e IN
                    \* StaleLastErrorOnCancelledWait (named deviation): when the last recorded error is the limiter's own
                    \* ErrExceeded (an earlier refused attempt), the executor takes it for a refusal and calls OnRateLimitExceeded
                    IF le = Leaf("RateExceeded")
                    THEN Silent([SetX(S, t, [X EXCEPT !.spurious = @ + 1]) EXCEPT !.th[t].mode = "onrl", !.th[t].w = NoWait])
                    ELSE Silent([Ret(S, t, i - 1, Failure(le)) EXCEPT !.th[t].w = NoWait])
               ELSE {})
    [] w.k = "bhacq" ->
         LET id == T.sub IN
         (IF w.kk \in S.acqc THEN One(End(S, t), [ev |-> "BhAcquired", w |-> w.kk, ok |-> FALSE]) ELSE {})
         \cup (IF S.pol[id] < cfg.bhmax[id] THEN Silent([S EXCEPT !.pol[id] = @ + 1, !.th[t].mode = "ctl", !.th[t].sub = "acqok", !.th[t].w = [NoWait EXCEPT !.kk = w.kk]]) ELSE {})
    [] w.k = "csleep" ->
         IF w.until <= now THEN Silent([S EXCEPT !.th[t].mode = "canc", !.th[t].w = NoWait]) ELSE {}
    [] w.k = "bh" ->
         LET p == Stack[i] IN
         (IF CanceledF(X, o) THEN Silent([Ret(S, t, i - 1, Failure(ErrF(X, o))) EXCEPT !.th[t].w = NoWait]) ELSE {})
         \cup (IF S.pol[p.id] < p.max THEN Silent([Desc([S EXCEPT !.pol[p.id] = @ + 1], t) EXCEPT !.th[t].w = NoWait]) ELSE {})
         \cup (IF w.until <= now THEN Silent([S EXCEPT !.th[t].mode = "onfull", !.th[t].w = NoWait]) ELSE {})
    [] w.k = "hedge" ->
         LET p == Stack[i]   h == T.hg[i]
             gotRes == h.chan # <<>>
             timer == w.until # -1 /\ w.until <= now
             \* after either case: IsCanceledWithResult(parent); then accept the result / start the next hedge
             After(S1, haveRes) ==
               IF Canceled(X, o) THEN Silent([Ret(S1, t, i - 1, CancelResult(X, o)) EXCEPT !.th[t].w = NoWait])
               ELSE IF haveRes
               THEN Silent([HedgeCancelLosers(S1, t, i, h.chan[1].idx, h.chan[1].res) EXCEPT !.th[t].w = NoWait, !.th[t].hg[i].chan = <<>>])
               ELSE \* not cancelled (checked under the mutex); the next hedge is prepared in further steps
                    Silent([S1 EXCEPT !.th[t].mode = "hedgecopy", !.th[t].w = NoWait])
         IN (IF gotRes THEN After(S, TRUE) ELSE {}) \cup (IF timer THEN After(S, FALSE) ELSE {})
    [] OTHER -> {}

Steps(S, t) ==
  LET T == TT(S, t)   lg == Lagging(XX(S, t), t) IN
  \* a cancel() call of this thread is still walking the context tree: it reaches one more descendant
  IF lg # {} THEN {[S |-> SetX(S, t, [XX(S, t) EXCEPT !.objs[d].lag = 0, !.objs[d].lagm = FALSE]), lab |-> NoLab] : d \in lg}
  ELSE
  CASE T.mode = "end" -> {}
    [] T.mode = "fnret" -> Silent(Ret(SetX(S, t, [XX(S, t) EXCEPT !.exe = @ + 1]), t, N, T.res))     \* execution.record()
    [] T.mode = "canc" -> CancellerSteps(S, t)
    [] T.mode = "ctl" ->
         LET id == T.w.k IN
         (CASE T.sub = "BhRelease" -> Silent(End([S EXCEPT !.pol[id] = @ - 1], t))
           [] T.sub = "BhTake" ->
                IF S.pol[id] < cfg.bhmax[id] THEN Silent([S EXCEPT !.pol[id] = @ + 1, !.th[t].sub = "took"])
                ELSE Silent([S EXCEPT !.th[t].sub = "full"])
           \* circuitBreaker.Open / HalfOpen / Close (under the breaker mutex): transitionTo - nothing happens when already there
           [] T.sub \in {"CbOpen", "CbHalfOpen", "CbClose"} ->
                LET to == CASE T.sub = "CbOpen" -> "open" [] T.sub = "CbHalfOpen" -> "halfopen" [] OTHER -> "closed"
                    p == Stack[CHOOSE j \in 1..N : Stack[j].k = "cb" /\ Stack[j].id = id]
                    r == BO(p.cfg)!Trans(S.pol[id], to, now) IN
                One([S EXCEPT !.pol[id] = r.b, !.th[t].sub = "cbret"],
                    IF r.ev = <<>> THEN NoLab ELSE [ev |-> "StateChanged", id |-> id, old |-> r.ev[1].old, new |-> r.ev[1].new])
           [] T.sub = "cbret" -> One(End(S, t), [ev |-> "CbRet", id |-> id])
           [] T.sub = "acqok" -> One(End(S, t), [ev |-> "BhAcquired", w |-> T.w.kk, ok |-> TRUE])
           [] T.sub = "took" -> One(End(S, t), [ev |-> "BhTake", id |-> id, ok |-> TRUE])
           [] T.sub = "full" -> One(End(S, t), [ev |-> "BhTake", id |-> id, ok |-> FALSE]))
    [] T.mode = "onrl" ->         \* the limiter refused: the listener gets a copy of the execution taken now ...
         Silent([S EXCEPT !.th[t].mode = "onrl2", !.th[t].snap = XX(S, t).last[T.obj]])
    [] T.mode = "onrl2" ->
         One(Ret(S, t, T.i - 1, Failure(Leaf("RateExceeded"))), Lab("OnRateLimitExceeded", S, t, T.i, T.snap, NoX))
    [] T.mode = "onfull" ->       \* the bulkhead refused (ErrFull): the listener gets a copy of the execution taken now ...
         Silent([S EXCEPT !.th[t].mode = "onfull2", !.th[t].snap = XX(S, t).last[T.obj]])
    [] T.mode = "onfull2" ->      \* ... OnFull listener, then the failure result goes up
         One(Ret(S, t, T.i - 1, Failure(Leaf("ErrFull"))), Lab("OnFull", S, t, T.i, T.snap, NoX))
    [] T.mode = "hedgecopy" ->
         \* CopyForHedge: copy (under the mutex), then attempts.Add(1), then hedges.Add(1) (two atomics: an observer can see the first alone)
         LET i == T.i   X == XX(S, t)   h == T.hg[i]
             X1 == NewObj([X EXCEPT !.att = @ + 1], T.obj, TRUE)   c == Len(X1.objs) IN
         Silent([SetX(S, t, X1) EXCEPT !.th[t].mode = "hedgecnt", !.th[t].hg[i].aobj = Append(h.aobj, c)])
    [] T.mode = "hedgecnt" -> Silent([SetX(S, t, [XX(S, t) EXCEPT !.hdg = @ + 1]) EXCEPT !.th[t].mode = "hedgeev"])
    [] T.mode = "hedgeev" ->      \* OnHedge listener, then `go attempt`, then wait for a result or the next hedge delay
         LET i == T.i   p == Stack[i]   h == T.hg[i]   X == XX(S, t)   c == h.aobj[Len(h.aobj)]
             at == [NewThread(T.x, "att", "down", i + 1, c, t, i, h.n, NoWait) EXCEPT !.gen = h.gen]
             S2 == [S EXCEPT !.th = Append(@, at), !.th[t].hg[i].n = h.n + 1, !.th[t].mode = "wait",
                             !.th[t].w = [k |-> "hedge", until |-> IF h.n < p.maxh THEN now + HedgeDelay(p, X.hdg) ELSE -1, coop |-> FALSE, kk |-> 0]]
         IN One(S2, LabA("OnHedge", S, t, i, X.last[c], NoX, c))
    [] T.mode = "wait" -> WakeSteps(S, t)
    [] T.kind = "timer" -> TimerSteps(S, t)
    [] T.mode = "down" -> DownSteps(S, t)
    [] T.mode = "up" -> UpSteps(S, t)

----------------------------------------------------------------------------
(* ---- environment script ---- *)
FreshExec(e) ==
  [objs |-> <<[par |-> 0, can |-> FALSE, cause |-> "-", hedge |-> FALSE, cf |-> FALSE, lag |-> 0, lagm |-> FALSE],          \* 1: the caller's context
              [par |-> 1, can |-> FALSE, cause |-> "-", hedge |-> FALSE, cf |-> cfg.asyncFix, lag |-> 0, lagm |-> FALSE]>>,   \* 2: async: child context of the result
   last |-> <<NoLast, NoLast>>, ast |-> <<now, now>>, cres |-> NilPR, att |-> 1, ret |-> 0, hdg |-> 0, exe |-> 0, calls |-> 0, t0 |-> now,
   rs |-> [j \in 1..N |-> [failed |-> 0, exceeded |-> FALSE]], final |-> NilPR, returned |-> FALSE, async |-> e.async, cancel1 |-> FALSE,
   stored |-> FALSE, doneflag |-> FALSE, closed |-> FALSE, callobj |-> <<>>, spurious |-> 0,
   ck |-> IF "ck" \in DOMAIN e THEN e.ck ELSE "none"]

DlOf(e) == IF "dl" \in DOMAIN e THEN e.dl ELSE -1
\* one environment action (performed by the harness' controller at its scripted instant)
EnvSteps(S) ==
  IF envi > Len(cfg.env) THEN {}
  ELSE LET e == cfg.env[envi] IN
  IF e.at > now THEN {}
  ELSE CASE e.what = "Start" ->
              LET X == FreshExec(e)
                  root == IF e.async THEN 2 ELSE 1
                  m == [NewThread(e.x, "main", "down", 1, root, 0, 0, 0, NoWait) EXCEPT !.mode = IF N = 0 THEN "down" ELSE "down"]
                  \* e.dl >= 0: the caller's context carries a deadline at instant e.dl - a timer of the runtime, set when the context
                  \* is made, cancels it (nothing the harness does marks its firing); a deadline already reached: cancelled from the start
                  tm == [NewThread(e.x, "canc", "wait", 0, 0, 0, 0, 0, [k |-> "csleep", until |-> DlOf(e), coop |-> FALSE, kk |-> 0]) EXCEPT !.sub = "deadline"]
                  ths == IF DlOf(e) > now THEN <<m, tm>> ELSE <<m>>
                  X1 == IF e.id = "precanceled" THEN CancelCtx(X, 1, "CtxCanceled", 0, FALSE)
                        ELSE IF DlOf(e) >= 0 /\ DlOf(e) <= now THEN CancelCtx(X, 1, "CtxDeadline", 0, FALSE) ELSE X IN
              \* (e.id = "precanceled": the caller's context is already done when the execution starts)
              One([S EXCEPT !.xs[e.x] = X1, !.th = @ \o ths], [ev |-> "Start", x |-> e.x])
         [] e.what \in {"CtxCancel", "CtxDeadline", "AsyncCancel"} ->
              LET c == [NewThread(e.x, "canc", "canc", 0, 0, 0, 0, IF e.what = "AsyncCancel" THEN e.gap ELSE 0, NoWait) EXCEPT
                           !.sub = CASE e.what = "CtxCancel" -> "ctx" [] e.what = "CtxDeadline" -> "deadline" [] OTHER -> "async1"] IN
              One([S EXCEPT !.th = Append(@, c)], [ev |-> e.what, x |-> e.x])
         \* standalone bulkhead API from the controller: the call's start is visible, the semaphore operation is a silent step
         \* of a helper thread, and (TryAcquirePermit) the returned value is visible afterwards
         \* standalone AcquirePermit(ctx): a helper goroutine blocks in select { ctx.Done / semaphore <- }; its return is visible
         [] e.what = "BhAcquire" ->
              LET c == [NewThread(1, "ctl", "wait", 0, 0, 0, 0, e.x, [NoWait EXCEPT !.k = "bhacq", !.kk = e.x]) EXCEPT !.sub = e.id] IN
              One([S EXCEPT !.th = Append(@, c)], [ev |-> "BhAcquireCall", id |-> e.id, w |-> e.x])
         [] e.what = "BhAcqCancel" ->
              One([S EXCEPT !.acqc = @ \cup {e.x}], [ev |-> "BhAcqCancel", w |-> e.x])
         [] e.what \in {"BhTake", "BhRelease"} ->
              LET c == [NewThread(1, "ctl", "ctl", 0, 0, 0, 0, 0, NoWait) EXCEPT !.sub = e.what, !.w = [NoWait EXCEPT !.k = e.id]] IN
              One([S EXCEPT !.th = Append(@, c)], [ev |-> e.what \o "Call", id |-> e.id])
         \* standalone circuit breaker API from the controller (Open / HalfOpen / Close): call visible, the transition a step of a helper
         [] e.what \in {"CbOpen", "CbHalfOpen", "CbClose"} ->
              LET c == [NewThread(1, "ctl", "ctl", 0, 0, 0, 0, 0, NoWait) EXCEPT !.sub = e.what, !.w = [NoWait EXCEPT !.k = e.id]] IN
              One([S EXCEPT !.th = Append(@, c)], [ev |-> e.what \o "Call", id |-> e.id])
         [] e.what = "Probe" -> One(S, [ev |-> "Probe", used |-> [id \in DOMAIN S.pol |-> IF id \in DOMAIN cfg.bhmax THEN S.pol[id] ELSE -1]])

----------------------------------------------------------------------------
(* ---- what readers of an async ExecutionResult can observe in a state (C15): no state change ---- *)
ObsLabels(S) ==
  UNION {LET X == S.xs[x] IN
         IF X.objs = <<>> \/ ~X.async THEN {}
         ELSE {[ev |-> "IsDone", x |-> x, v |-> X.doneflag]}
              \cup (IF X.closed THEN {[ev |-> "DoneClosed", x |-> x],
                                      [ev |-> "GetRet", x |-> x, r |-> X.final.r, e |-> X.final.e],
                                      [ev |-> "Return", x |-> x, r |-> X.final.r, e |-> X.final.e]} ELSE {})
         : x \in 1..Len(S.xs)}

----------------------------------------------------------------------------
(* ---- the transition relation ---- *)
St == [pol |-> pol, xs |-> xs, th |-> th, acqc |-> acqc]
Runnable(S) == \E t \in 1..Len(S.th) : Steps(S, t) # {}
EnvDue(S) == EnvSteps(S) # {}

\* next instant at which something can happen
Pending == {th[t].w.until : t \in {u \in 1..Len(th) : th[u].mode = "wait" /\ th[u].w.until > now}}
           \cup (IF envi <= Len(cfg.env) /\ cfg.env[envi].at > now THEN {cfg.env[envi].at} ELSE {})
MinOf(Sx) == CHOOSE m \in Sx : \A y \in Sx : m <= y

Apply(r) == pol' = r.S.pol /\ xs' = r.S.xs /\ th' = r.S.th /\ acqc' = r.S.acqc

ThreadStep(lab) == \E t \in 1..Len(th) : \E r \in Steps(St, t) : r.lab = lab /\ Apply(r) /\ UNCHANGED <<cfg, now, envi>>
EnvStep(lab) == \E r \in EnvSteps(St) : r.lab = lab /\ Apply(r) /\ envi' = envi + 1 /\ UNCHANGED <<cfg, now>>
Advance == /\ ~Runnable(St) /\ ~EnvDue(St) /\ Pending # {}
           /\ now' = MinOf(Pending) /\ UNCHANGED <<cfg, pol, xs, th, envi, acqc>>
=============================================================================
