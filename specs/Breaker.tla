------------------------------- MODULE Breaker -------------------------------
(* Circuit breaker (failsafe-go circuitbreaker package) as a standalone machine.                         *)
(*                                                                                                        *)
(* ACTIONS are written from the code, one per critical section of circuitBreaker (everything under       *)
(* cb.mtx): the bit ring of countingStats, the 10 buckets + summary + head of timedStats, the open        *)
(* state's shared reference to the previous state's stats, the half-open permit counter.                  *)
(* INVARIANTS are written from the property text (C03) over the history variable `log`, never over       *)
(* the code-shaped fields.                                                                                *)
(*                                                                                                        *)
(* Time is an integer number of units; one window slice (period/10) is SliceU units.                      *)
EXTENDS Integers, Sequences, FiniteSets, TLC, Json

CONSTANTS
  Cfg,      \* [fthr, fcap, frate, fexec, period (0 = count based; else = 10*SliceU), sthr, scap, delay]
  SliceU,   \* units per time slice
  Ticks,    \* set of clock advances offered to the environment
  Depth     \* number of environment actions per generated history

VARIABLES
  now,      \* clock
  br,       \* code-shaped breaker state
  log,      \* history: every recorded result since the current state was entered: <<time, ok>>
  epochAt,  \* history: instant the current state was entered
  hist      \* generated behaviour: sequence of [act, d, obs]

vars == <<now, br, log, epochAt, hist>>

Max(a, b) == IF a > b THEN a ELSE b
Min(a, b) == IF a < b THEN a ELSE b

----------------------------------------------------------------------------
(* ---- countingStats (circuitstats.go:29-125) ---- *)
NewCounting(size) ==
  [kind |-> "count", size |-> size, bits |-> [i \in 0..(size-1) |-> FALSE], head |-> 0, occ |-> 0, succ |-> 0, fail |-> 0]

\* setNext: evict the bit under head when full, then write and advance
CountRecord(s, ok) ==
  LET full == s.occ >= s.size
      evS == IF full /\ s.bits[s.head] THEN 1 ELSE 0
      evF == IF full /\ ~s.bits[s.head] THEN 1 ELSE 0
  IN [s EXCEPT !.occ = IF full THEN @ ELSE @ + 1,
               !.succ = @ - evS + (IF ok THEN 1 ELSE 0),
               !.fail = @ - evF + (IF ok THEN 0 ELSE 1),
               !.bits[s.head] = ok,
               !.head = (s.head + 1) % s.size]

(* ---- timedStats (circuitstats.go:128-228) ---- *)
NewTimed == [kind |-> "timed", b |-> [i \in 0..9 |-> [s |-> 0, f |-> 0]], sum |-> [s |-> 0, f |-> 0], head |-> 0]

\* currentBucket(): expire min(10, newHead-head) buckets after head, move head
TimedAdvance(s, t) ==
  LET nh == t \div SliceU IN
  IF nh > s.head THEN
     LET n == Min(10, nh - s.head)
         idxs == {((s.head + i + 1) % 10) : i \in 0..(n-1)}
         remS == LET RECURSIVE Sm(_) Sm(S) == IF S = {} THEN 0 ELSE LET x == CHOOSE x \in S : TRUE IN s.b[x].s + Sm(S \ {x}) IN Sm(idxs)
         remF == LET RECURSIVE Sm(_) Sm(S) == IF S = {} THEN 0 ELSE LET x == CHOOSE x \in S : TRUE IN s.b[x].f + Sm(S \ {x}) IN Sm(idxs)
     IN [s EXCEPT !.b = [i \in 0..9 |-> IF i \in idxs THEN [s |-> 0, f |-> 0] ELSE s.b[i]],
                  !.sum = [s |-> s.sum.s - remS, f |-> s.sum.f - remF],
                  !.head = nh]
  ELSE s

TimedRecord(s0, ok, t) ==
  LET s == TimedAdvance(s0, t)   i == s.head % 10 IN
  IF ok THEN [s EXCEPT !.b[i].s = @ + 1, !.sum.s = @ + 1]
        ELSE [s EXCEPT !.b[i].f = @ + 1, !.sum.f = @ + 1]

StRecord(s, ok, t) == IF s.kind = "count" THEN CountRecord(s, ok) ELSE TimedRecord(s, ok, t)
StSucc(s) == IF s.kind = "count" THEN s.succ ELSE s.sum.s
StFail(s) == IF s.kind = "count" THEN s.fail ELSE s.sum.f
StExec(s) == IF s.kind = "count" THEN s.occ ELSE s.sum.s + s.sum.f
\* uint(math.Round(x / n * 100)) : nearest integer, halves up
Pct(x, n) == IF n = 0 THEN 0 ELSE (200 * x + n) \div (2 * n)
StFRate(s) == Pct(StFail(s), StExec(s))
StSRate(s) == Pct(StSucc(s), StExec(s))
Metrics(s) == <<StExec(s), StFail(s), StFRate(s), StSucc(s), StSRate(s)>>

----------------------------------------------------------------------------
(* ---- states (circuitstates.go) ---- *)
ClosedStats == IF Cfg.period # 0 THEN NewTimed
               ELSE NewCounting(IF Cfg.fexec # 0 THEN Cfg.fexec ELSE Cfg.fcap)
HalfCap == IF Cfg.scap # 0 THEN Cfg.scap ELSE IF Cfg.fexec # 0 THEN Cfg.fexec ELSE Cfg.fcap

NewClosed == [st |-> "closed", stats |-> ClosedStats, openedAt |-> 0, odelay |-> 0, permitted |-> 0]
ToOpen(b, t, d) == [b EXCEPT !.st = "open", !.openedAt = t, !.odelay = d]          \* keeps previous stats (shared)
NewHalf == [st |-> "halfopen", stats |-> NewCounting(HalfCap), openedAt |-> 0, odelay |-> 0, permitted |-> HalfCap]

\* transitionTo: only when the state differs; the event carries the OLD state's metrics
Trans(b, to, t) ==
  IF b.st = to THEN [b |-> b, ev |-> <<>>]
  ELSE [b |-> CASE to = "closed" -> NewClosed
                [] to = "open" -> ToOpen(b, t, Cfg.delay)
                [] to = "halfopen" -> NewHalf,
        ev |-> <<[old |-> b.st, new |-> to, m |-> Metrics(b.stats)]>>]

\* closedState.checkThresholdAndReleasePermit
ClosedCheck(b, t) ==
  IF /\ StExec(b.stats) >= Cfg.fexec
     /\ \/ (Cfg.frate # 0 /\ StFRate(b.stats) >= Cfg.frate)
        \/ (Cfg.frate = 0 /\ StFail(b.stats) >= Cfg.fthr)
  THEN Trans(b, "open", t) ELSE [b |-> b, ev |-> <<>>]

\* halfOpenState.checkThresholdAndReleasePermit (the permit++ lands on the old state object: lost on a transition)
HalfCheck(b, t) ==
  LET s == b.stats
      sx == IF Cfg.sthr # 0 THEN StSucc(s) >= Cfg.sthr
            ELSE IF Cfg.frate # 0 THEN StExec(s) >= Cfg.fexec /\ StSRate(s) > 100 - Cfg.frate
            ELSE StSucc(s) > Cfg.fcap - Cfg.fthr
      fx == IF Cfg.sthr # 0 THEN StFail(s) > Cfg.scap - Cfg.sthr
            ELSE IF Cfg.frate # 0 THEN StExec(s) >= Cfg.fexec /\ StFRate(s) >= Cfg.frate
            ELSE StFail(s) >= Cfg.fthr
  IN IF sx THEN Trans(b, "closed", t)
     ELSE IF fx THEN Trans(b, "open", t)
     ELSE [b |-> [b EXCEPT !.permitted = @ + 1], ev |-> <<>>]

\* recordSuccess / recordFailure: record into the current state's stats (open: the previous state's), then check
Record(b, ok, t) ==
  LET b1 == [b EXCEPT !.stats = StRecord(b.stats, ok, t)] IN
  CASE b.st = "closed" -> ClosedCheck(b1, t)
    [] b.st = "open" -> [b |-> b1, ev |-> <<>>]
    [] b.st = "halfopen" -> HalfCheck(b1, t)

\* tryAcquirePermit
TryAcq(b, t) ==
  CASE b.st = "closed" -> [b |-> b, ev |-> <<>>, ret |-> TRUE]
    [] b.st = "open" ->
         IF t - b.openedAt >= b.odelay
         THEN LET r == Trans(b, "halfopen", t) IN
              [b |-> [r.b EXCEPT !.permitted = @ - 1], ev |-> r.ev, ret |-> TRUE]    \* HalfCap >= 1
         ELSE [b |-> b, ev |-> <<>>, ret |-> FALSE]
    [] b.st = "halfopen" ->
         IF b.permitted > 0 THEN [b |-> [b EXCEPT !.permitted = @ - 1], ev |-> <<>>, ret |-> TRUE]
         ELSE [b |-> b, ev |-> <<>>, ret |-> FALSE]

RemainingDelay(b, t) == IF b.st = "open" THEN Max(0, b.odelay - (t - b.openedAt)) ELSE 0

----------------------------------------------------------------------------
Obs(b, t, ev, ret) ==
  [state |-> b.st, rem |-> RemainingDelay(b, t), m |-> Metrics(b.stats), events |-> ev, ret |-> ret]

Init ==
  /\ now = 0
  /\ br = NewClosed
  /\ log = <<>>
  /\ epochAt = 0
  /\ hist = <<>>

\* bookkeeping of the history variables on a state change
Hist(r, act, d, ret, lg) ==
  /\ br' = r.b
  /\ hist' = Append(hist, [act |-> act, d |-> d, obs |-> Obs(r.b, now', r.ev, ret)])
  /\ IF r.b.st # br.st THEN log' = <<>> /\ epochAt' = now' ELSE log' = lg /\ epochAt' = epochAt

RecordStep(ok) ==
  /\ now' = now
  /\ LET r == Record(br, ok, now) IN
     \* results recorded while open land in the previous state's stats and are outside every property clause
     Hist(r, IF ok THEN "RecordSuccess" ELSE "RecordFailure", 0, "none",
          IF br.st = "open" THEN log ELSE Append(log, <<now, ok>>))

TryAcquireStep ==
  /\ now' = now
  /\ LET r == TryAcq(br, now) IN Hist(r, "TryAcquirePermit", 0, IF r.ret THEN "true" ELSE "false", log)

ManualStep(to) ==
  /\ now' = now
  /\ Hist(Trans(br, to, now), CASE to = "open" -> "Open" [] to = "halfopen" -> "HalfOpen" [] to = "closed" -> "Close", 0, "none", log)

TickStep(d) ==
  /\ now' = now + d
  /\ Hist([b |-> br, ev |-> <<>>], "Tick", d, "none", log)

Next ==
  /\ Len(hist) < Depth
  /\ \/ RecordStep(TRUE) \/ RecordStep(FALSE)
     \/ TryAcquireStep
     \/ \E to \in {"open", "halfopen", "closed"} : ManualStep(to)
     \/ \E d \in Ticks : TickStep(d)

Spec == Init /\ [][Next]_vars

----------------------------------------------------------------------------
(* ---- C03, from the property text ---- *)
SliceOf(t) == t \div SliceU
Count(S) == Cardinality(S)
LogIdx == 1..Len(log)

\* Definitional window of a closed breaker at the instant of its latest record.
\* Count based: the last `cap` results of the epoch.  Time based: results whose slice is among the last 10.
LastRecAt == IF Len(log) = 0 THEN epochAt ELSE log[Len(log)][1]
ClosedWindow ==
  IF Cfg.period = 0
  THEN LET cap == IF Cfg.fexec # 0 THEN Cfg.fexec ELSE Cfg.fcap IN {i \in LogIdx : i > Len(log) - cap}
  ELSE {i \in LogIdx : SliceOf(log[i][1]) > SliceOf(LastRecAt) - 10}
WinFail(W) == Count({i \in W : ~log[i][2]})
WinSucc(W) == Count({i \in W : log[i][2]})

\* the incremental counters are the definitional window (checked whenever the breaker is closed:
\* nothing expires between records, StaleMetrics)
WindowRefinement ==
  br.st = "closed" =>
     /\ StFail(br.stats) = WinFail(ClosedWindow)
     /\ StSucc(br.stats) = WinSucc(ClosedWindow)

\* "results older than the thresholding period never count, those from its most recent nine tenths always do"
WindowBounds ==
  (br.st = "closed" /\ Cfg.period # 0) =>
     \A i \in LogIdx :
        /\ (LastRecAt - log[i][1] > Cfg.period => i \notin ClosedWindow)
        /\ (10 * (LastRecAt - log[i][1]) < 9 * Cfg.period => i \in ClosedWindow)

\* the documented opening predicate on the definitional window
ShouldOpen(W) ==
  LET n == Count(W)   f == WinFail(W) IN
  /\ n >= Cfg.fexec
  /\ IF Cfg.frate # 0 THEN Pct(f, n) >= Cfg.frate ELSE f >= Cfg.fthr

\* while closed the threshold is never met (it would have opened) ...
ClosedMeansBelowThreshold == (br.st = "closed" /\ Len(log) > 0) => ~ShouldOpen(ClosedWindow)

\* ... and a record step leaves the closed state only to open, and only when the threshold is met on
\* the window including that result  (action property)
OpensExactlyWhen ==
  [][ (br.st = "closed" /\ hist' # hist /\ hist'[Len(hist')].act \in {"RecordSuccess", "RecordFailure"})
      => LET lg == Append(log, <<now, hist'[Len(hist')].act = "RecordSuccess">>)
             W == IF Cfg.period = 0
                  THEN LET cap == IF Cfg.fexec # 0 THEN Cfg.fexec ELSE Cfg.fcap IN {i \in 1..Len(lg) : i > Len(lg) - cap}
                  ELSE {i \in 1..Len(lg) : SliceOf(lg[i][1]) > SliceOf(now) - 10}
             n == Count(W)   f == Count({i \in W : ~lg[i][2]})
             should == n >= Cfg.fexec /\ (IF Cfg.frate # 0 THEN Pct(f, n) >= Cfg.frate ELSE f >= Cfg.fthr)
         IN (br'.st = "open") <=> should ]_vars

\* open: admits nothing before the delay, half-opens on the first request at or after it
OpenAdmission ==
  [][ (br.st = "open" /\ hist' # hist /\ hist'[Len(hist')].act = "TryAcquirePermit")
      => IF now - epochAt >= Cfg.delay
         THEN br'.st = "halfopen" /\ hist'[Len(hist')].obs.ret = "true"
         ELSE br'.st = "open" /\ hist'[Len(hist')].obs.ret = "false" ]_vars

\* only a permit request or a manual call leaves the open state; time alone and records never do
OpenIsSticky ==
  [][ (br.st = "open" /\ br'.st # "open") => hist'[Len(hist')].act \in {"TryAcquirePermit", "HalfOpen", "Close"} ]_vars

RemainingDelayExact ==
  Len(hist) > 0 =>
     hist[Len(hist)].obs.rem = (IF br.st = "open" THEN Max(0, Cfg.delay - (now - epochAt)) ELSE 0)

\* half-open: trial results are decided within the trial capacity, in the documented direction
TrialCap == HalfCap
TrialDecision ==
  br.st = "halfopen" =>
     /\ Len(log) < TrialCap                          \* capacity results never accumulate without a decision
     /\ LET s == WinSucc(LogIdx)  f == WinFail(LogIdx) IN
        IF Cfg.sthr # 0 THEN s < Cfg.sthr /\ f <= Cfg.scap - Cfg.sthr
        ELSE IF Cfg.frate # 0 THEN TRUE
        ELSE f < Cfg.fthr /\ s <= Cfg.fcap - Cfg.fthr

TrialDirection ==
  [][ (br.st = "halfopen" /\ hist' # hist /\ hist'[Len(hist')].act \in {"RecordSuccess", "RecordFailure"} /\ br'.st # "halfopen")
      => LET ok == hist'[Len(hist')].act = "RecordSuccess"
             s == WinSucc(LogIdx) + (IF ok THEN 1 ELSE 0)
             f == WinFail(LogIdx) + (IF ok THEN 0 ELSE 1) IN
         IF Cfg.sthr # 0 THEN (br'.st = "closed" <=> s >= Cfg.sthr)
         ELSE IF Cfg.frate # 0 THEN (br'.st = "open" <=> Pct(f, s + f) >= Cfg.frate)
         ELSE (br'.st = "open" <=> f >= Cfg.fthr) ]_vars

\* events of one step form a connected path ending in the current state, each carrying the metrics of the state left
EventPath ==
  Len(hist) > 0 =>
    LET evs == hist[Len(hist)].obs.events IN
    /\ Len(evs) <= 1
    /\ (Len(evs) = 1 => evs[1].new = br.st /\ evs[1].old # evs[1].new)
EventIffChange ==
  [][ hist' # hist => ((br'.st # br.st) <=> (Len(hist'[Len(hist')].obs.events) = 1 /\ hist'[Len(hist')].obs.events[1].old = br.st)) ]_vars

TypeOK == br.st \in {"closed", "open", "halfopen"} /\ now >= 0

\* generation: every maximal history is printed as one JSON line
Emit == (Len(hist) = Depth) => PrintT(ToJson(hist))
=============================================================================
