------------------------------- MODULE Breaker -------------------------------
(* Circuit breaker (failsafe-go circuitbreaker package) as a standalone machine.                         *)
(*                                                                                                        *)
(* ACTIONS are written from the code, one per critical section of circuitBreaker (everything under       *)
(* cb.mtx): the bit ring of countingStats, the 10 buckets + summary + head of timedStats, the open        *)
(* state's shared reference to the previous state's stats, the half-open permit counter.                  *)
(* INVARIANTS are written from the property text (C03) over the history variable `log`, never over       *)
(* the code-shaped fields.                                                                                *)
(*                                                                                                        *)
(* Time is an integer number of units; one window slice (period/10) is SliceU units.                      *)
EXTENDS BreakerOps, TLC, Json

CONSTANTS
  Ticks,    \* set of clock advances offered to the environment
  Letters,  \* enabled standalone letters, subset of {"RecS","RecF","Try","open","halfopen","closed"}
  ExecDelays, \* delay-function values offered to executions through the breaker (-1 = no computed delay); {} = no executions
  Depth     \* number of environment actions per generated history

VARIABLES
  now,      \* clock
  br,       \* code-shaped breaker state
  log,      \* history: every recorded result since the current state was entered: <<time, ok>>
  epochAt,  \* history: instant the current state was entered
  odl,      \* history: the delay this open period must last: the configured one, or the delay function's value
  hist      \* generated behaviour: sequence of [act, d, obs]

vars == <<now, br, log, epochAt, odl, hist>>

Obs(b, t, ev, ret) ==
  [state |-> b.st, rem |-> RemainingDelay(b, t), m |-> Metrics(b.stats), events |-> ev, ret |-> ret]

Init ==
  /\ now = 0
  /\ br = NewClosed
  /\ log = <<>>
  /\ epochAt = 0
  /\ odl = 0
  /\ hist = <<>>

\* bookkeeping shared by all steps: b2/evs = new breaker state and the events of the step, lg2 = new log
Book(act, d, ret, b2, evs, lg2) ==
  /\ br' = b2
  /\ hist' = Append(hist, [act |-> act, d |-> d, obs |-> Obs(b2, now', evs, ret)])
  /\ log' = lg2
  /\ epochAt' = IF evs # <<>> THEN now' ELSE epochAt
  /\ odl' = IF evs # <<>> /\ evs[Len(evs)].new = "open"
            THEN (IF act = "Exec" /\ ret = "fail" /\ d # -1 THEN d ELSE Cfg.delay) ELSE odl

RecordStep(ok) ==
  /\ now' = now
  /\ LET r == Record(br, ok, now) IN
     \* results recorded while open land in the previous state's stats and are outside every property clause
     Book(IF ok THEN "RecordSuccess" ELSE "RecordFailure", 0, "none", r.b, r.ev,
          IF br.st = "open" THEN log ELSE IF r.ev # <<>> THEN <<>> ELSE Append(log, <<now, ok>>))

TryAcquireStep ==
  /\ now' = now
  /\ LET r == TryAcq(br, now) IN
     Book("TryAcquirePermit", 0, IF r.ret THEN "true" ELSE "false", r.b, r.ev, IF r.ev # <<>> THEN <<>> ELSE log)

ManualStep(to) ==
  /\ now' = now
  /\ LET r == Trans(br, to, now) IN
     Book(CASE to = "open" -> "Open" [] to = "halfopen" -> "HalfOpen" [] to = "closed" -> "Close", 0, "none",
          r.b, r.ev, IF r.ev # <<>> THEN <<>> ELSE log)

\* one execution through the breaker's policy executor (circuitbreakerexecutor.go): PreExecute = TryAcquirePermit
\* (refused => ErrOpen, nothing recorded); the function returns at the same instant; OnSuccess -> recordSuccess,
\* OnFailure -> recordFailure(exec), the only path on which the delay function is consulted.
ExecStep(ok, dv) ==
  /\ now' = now
  /\ LET a == TryAcq(br, now) IN
     IF ~a.ret THEN Book("Exec", dv, "rejected", a.b, a.ev, log)
     ELSE LET r == RecordD(a.b, ok, now, IF ok THEN -1 ELSE dv) IN
          Book("Exec", dv, IF ok THEN "ok" ELSE "fail", r.b, a.ev \o r.ev,
               IF r.ev # <<>> THEN <<>> ELSE Append(IF a.ev # <<>> THEN <<>> ELSE log, <<now, ok>>))

TickStep(d) ==
  /\ now' = now + d
  /\ Book("Tick", d, "none", br, <<>>, log)

Next ==
  /\ Len(hist) < Depth
  /\ \/ ("RecS" \in Letters /\ RecordStep(TRUE))
     \/ ("RecF" \in Letters /\ RecordStep(FALSE))
     \/ ("Try" \in Letters /\ TryAcquireStep)
     \/ \E to \in {"open", "halfopen", "closed"} \cap Letters : ManualStep(to)
     \/ \E dv \in ExecDelays : ExecStep(FALSE, dv)
     \/ (ExecDelays # {} /\ ExecStep(TRUE, -1))
     \/ \E d \in Ticks : TickStep(d)

Spec == Init /\ [][Next]_vars

----------------------------------------------------------------------------
(* ---- C03, from the property text ---- *)
SliceOf(t) == t \div SliceU
Count(S) == Cardinality(S)
LogIdx == 1..Len(log)
Last == hist'[Len(hist')]            \* the step being taken (action properties only)
\* which verdict the step records, if any
RecOf(h) == CASE h.act = "RecordSuccess" \/ (h.act = "Exec" /\ h.obs.ret = "ok") -> "S"
              [] h.act = "RecordFailure" \/ (h.act = "Exec" /\ h.obs.ret = "fail") -> "F"
              [] OTHER -> "none"
\* is the step a permit request (standalone or the executor's)?
IsRequest(h) == h.act \in {"TryAcquirePermit", "Exec"}
Admitted(h) == h.obs.ret \in {"true", "ok", "fail"}

\* Definitional window of a closed breaker at the instant of its latest record.
\* Count based: the last `cap` results of the epoch.  Time based: results whose slice is among the last 10.
ClosedCap == IF Cfg.fexec # 0 THEN Cfg.fexec ELSE Cfg.fcap
WindowOf(lg, at) ==
  IF Cfg.period = 0 THEN {i \in 1..Len(lg) : i > Len(lg) - ClosedCap}
  ELSE {i \in 1..Len(lg) : SliceOf(lg[i][1]) > SliceOf(at) - 10}
FailsIn(lg, W) == Count({i \in W : ~lg[i][2]})
SuccsIn(lg, W) == Count({i \in W : lg[i][2]})
LastRecAt == IF Len(log) = 0 THEN epochAt ELSE log[Len(log)][1]
ClosedWindow == WindowOf(log, LastRecAt)

\* the incremental counters are the definitional window (nothing expires between records: StaleMetrics)
WindowRefinement ==
  br.st = "closed" =>
     /\ StFail(br.stats) = FailsIn(log, ClosedWindow)
     /\ StSucc(br.stats) = SuccsIn(log, ClosedWindow)

\* "results older than the thresholding period never count, those from its most recent nine tenths always do"
WindowBounds ==
  (br.st = "closed" /\ Cfg.period # 0) =>
     \A i \in LogIdx :
        /\ (LastRecAt - log[i][1] > Cfg.period => i \notin ClosedWindow)
        /\ (10 * (LastRecAt - log[i][1]) < 9 * Cfg.period => i \in ClosedWindow)

\* the documented opening predicate on a window
ShouldOpen(lg, W) ==
  LET n == Count(W)   f == FailsIn(lg, W) IN
  /\ n >= Cfg.fexec
  /\ IF Cfg.frate # 0 THEN Pct(f, n) >= Cfg.frate ELSE f >= Cfg.fthr

\* while closed the threshold is never met (it would have opened) ...
ClosedMeansBelowThreshold == (br.st = "closed" /\ Len(log) > 0) => ~ShouldOpen(log, ClosedWindow)

\* ... and a recording step taken while closed opens the breaker iff the threshold is met on the window
\* including that result, and otherwise leaves it closed
OpensExactlyWhen ==
  [][ (br.st = "closed" /\ hist' # hist /\ RecOf(Last) # "none")
      => LET lg == Append(log, <<now, RecOf(Last) = "S">>) IN
         IF ShouldOpen(lg, WindowOf(lg, now)) THEN br'.st = "open" ELSE br'.st = "closed" ]_vars

\* open: every request before the delay is refused and changes nothing; the first one at or after it is
\* admitted in the half-open state
OpenAdmission ==
  [][ (br.st = "open" /\ hist' # hist /\ IsRequest(Last))
      => IF now - epochAt >= odl
         THEN Admitted(Last) /\ Len(Last.obs.events) >= 1 /\ Last.obs.events[1].new = "halfopen"
         ELSE ~Admitted(Last) /\ br' = br ]_vars

\* only a permit request or a manual call leaves the open state; time alone and records never do
OpenIsSticky ==
  [][ (br.st = "open" /\ hist' # hist /\ ~IsRequest(Last) /\ Last.act \notin {"HalfOpen", "Close"}) => br'.st = "open" /\ epochAt' = epochAt ]_vars

RemainingDelayExact ==
  Len(hist) > 0 =>
     hist[Len(hist)].obs.rem = (IF br.st = "open" THEN Max(0, odl - (now - epochAt)) ELSE 0)

\* half-open: trial results are decided within the trial capacity, in the documented direction
TrialCap == HalfCap
TrialDecision ==
  br.st = "halfopen" =>
     /\ Len(log) < TrialCap                          \* capacity results never accumulate without a decision
     /\ LET s == SuccsIn(log, LogIdx)  f == FailsIn(log, LogIdx) IN
        IF Cfg.sthr # 0 THEN s < Cfg.sthr /\ f <= Cfg.scap - Cfg.sthr
        ELSE IF Cfg.frate # 0 THEN TRUE
        ELSE f < Cfg.fthr /\ s <= Cfg.fcap - Cfg.fthr

\* a standalone record while half-open that ends the trial goes in the documented direction
TrialDirection ==
  [][ (br.st = "halfopen" /\ hist' # hist /\ Last.act \in {"RecordSuccess", "RecordFailure", "Exec"} /\ RecOf(Last) # "none" /\ br'.st # "halfopen")
      => LET ok == RecOf(Last) = "S"
             s == SuccsIn(log, LogIdx) + (IF ok THEN 1 ELSE 0)
             f == FailsIn(log, LogIdx) + (IF ok THEN 0 ELSE 1) IN
         IF Cfg.sthr # 0 THEN (br'.st = "closed" <=> s >= Cfg.sthr)
         \* (rates are whole percents, rounded: a trial window such as 3 failures + 5 successes against a threshold of 38 meets BOTH
         \*  "failure rate >= 38" (37.5 -> 38) and "success rate > 62" (62.5 -> 63); the statement does not say which wins: either)
         ELSE IF Cfg.frate # 0 THEN (IF Pct(f, s + f) >= Cfg.frate /\ Pct(s, s + f) > 100 - Cfg.frate THEN TRUE
                                     ELSE (br'.st = "open" <=> Pct(f, s + f) >= Cfg.frate))
         ELSE (br'.st = "open" <=> f >= Cfg.fthr) ]_vars

\* half-open admission: never more outstanding trial permits than the capacity when every permit is paired
\* with a result (executions only)
\* events of one step form a connected path from the state before to the state after
EventPath ==
  [][ hist' # hist =>
      LET evs == Last.obs.events IN
      /\ (evs = <<>> => br'.st = br.st)
      /\ (evs # <<>> => /\ evs[1].old = br.st
                        /\ evs[Len(evs)].new = br'.st
                        /\ \A i \in 1..Len(evs) : evs[i].old # evs[i].new
                        /\ \A i \in 1..(Len(evs) - 1) : evs[i].new = evs[i + 1].old) ]_vars

TypeOK == br.st \in {"closed", "open", "halfopen"} /\ now >= 0

\* generation: every maximal history is printed as one JSON line
Emit == (Len(hist) = Depth) => PrintT(ToJson(hist))
=============================================================================
