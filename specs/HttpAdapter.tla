----------------------------- MODULE HttpAdapter -----------------------------
(* C18 / C19 for the HTTP and gRPC adapters: the attempt protocol of failsafehttp.doRequest (and of the gRPC   *)
(* interceptors) over a retry policy built by RetryPolicyBuilder, as a machine that consumes a recorded trace: *)
(*   Config   the scenario: server script (status / Retry-After / connection error per attempt), maxRetries     *)
(*   Req      attempt n as the server (or the fake invoker/handler) saw it, with the projection's verdicts:      *)
(*            same method / URL / headers / complete body as the original; caller's context values and deadline *)
(*            present on the context the inner transport got; arrival instant                                   *)
(*   Final    what the caller got: status or error, whether the body could be read to the end                   *)
(*   Quiesce  merger goroutines still alive, responses obtained but neither returned nor closed                 *)
(* The retry decisions are the documented table (429, 5xx except 501, connection errors), never the code's.     *)
EXTENDS Integers, Sequences, FiniteSets, TLC, Json

CONSTANT TraceFile
Trace == ndJsonDeserialize(TraceFile)

VARIABLES l, hc, att, lastEnd, lastStart, fin
hvars == <<l, hc, att, lastEnd, lastStart, fin>>
Line == Trace[l]
\* a property clause evaluated on a recorded line: a failure is reported with the clause's name and the line number, and
\* validation goes on (so that one trace can report several independent findings)
Must(name, ok) == IF ok THEN TRUE ELSE PrintT(<<"HVIOL", name, l>>)

\* what the server answers to attempt n (beyond the script: 200)
Resp(n) == IF n >= 1 /\ n <= Len(hc.script) THEN hc.script[n] ELSE [status |-> 200, ra |-> -1, err |-> "none", mode |-> "buffered"]
\* the documented retryable outcomes
RetryableStatus(s) == s = 429 \/ (s >= 500 /\ s # 501)
Retryable(r) == IF r.err # "none" THEN r.err \in {"conn", "attemptdl"} ELSE RetryableStatus(r.status)
\* Retry-After (seconds, only honoured on 429 and 503) -> delay in units
RetryAfter(r) == IF r.err = "none" /\ r.status \in {429, 503} /\ r.ra >= 0 THEN r.ra * hc.unitsPerSec ELSE 0

HConfig == /\ l <= Len(Trace) /\ Line.ev = "HConfig"
           /\ hc' = Line.cfg /\ att' = 0 /\ lastEnd' = 0 /\ lastStart' = 0 /\ fin' = FALSE /\ l' = l + 1

\* attempt n reaches the server
HReq ==
  /\ l <= Len(Trace) /\ Line.ev = "Req" /\ ~fin
  /\ Line.n = att + 1
  /\ Must("attemptBeyondScript", att < Len(hc.script))
  \* a further attempt only after a retryable outcome, within the budget, and not before Retry-After has elapsed
  /\ Must("retryOnlyRetryable", att > 0 => Retryable(Resp(att)) /\ att <= hc.maxRetries)
  /\ Must("retryAfterRespected", att > 0 => Line.t >= lastEnd + RetryAfter(Resp(att)))
  \* C18: the original method, URL, headers and the complete original body, every time
  /\ Must("sameMethod", Line.sameMethod) /\ Must("sameURL", Line.sameURL) /\ Must("sameHeaders", Line.sameHeaders)
  /\ Must("bodyComplete", Line.bodyComplete)
  \* C18: the context the attempt runs under still carries the caller's values and deadline
  /\ Must("ctxValues", Line.ctxValues) /\ Must("ctxDeadline", Line.ctxDeadline)
  \* C07 through the adapter: an attempt a Timeout gave up on is cancelled on the wire, body or not
  /\ Must("attemptCancelled", ((\E j \in 1..Len(hc.policies) : hc.policies[j] = "timeout1") /\ Resp(att + 1).mode = "slow3") => Line.srvCancelled)
  /\ lastStart' = Line.t
  /\ att' = att + 1 /\ lastEnd' = Line.tend /\ UNCHANGED <<hc, fin>> /\ l' = l + 1

\* the caller gets the last attempt's response (or error), readable to the end
HFinal ==
  /\ l <= Len(Trace) /\ Line.ev = "Final" /\ ~fin /\ att >= 1
  /\ LET r == Resp(att)
         \* the adapter's default retry policy (no ReturnLastFailure): exhausted retries end in an ExceededError that carries the LAST attempt's response
         plainRetry == \E j \in 1..Len(hc.policies) : hc.policies[j] = "retryx"
         exhausted == plainRetry /\ Retryable(r) /\ att = hc.maxRetries + 1
         \* the upload cannot be rewound for the attempt that is due next (environment fault): the request ends with that error
         \* a Timeout of one unit around a server that takes three: ErrExceeded when the limit elapses, the attempt cancelled
         timesOut == (\E j \in 1..Len(hc.policies) : hc.policies[j] = "timeout1") /\ r.mode = "slow3"
         rewindFails == hc.seekFailFrom > 0 /\ att = hc.seekFailFrom - 1 /\ Retryable(r) /\ att <= hc.maxRetries IN
     /\ Must("retriesAllRetryable", rewindFails \/ ~Retryable(r) \/ att = hc.maxRetries + 1 \/ att = Len(hc.script))         \* nothing left to retry
     /\ IF timesOut THEN Must("timeoutPrompt", Line.status = -1 /\ Line.t <= lastStart + 1)
        ELSE IF rewindFails THEN Must("lastError", Line.status = -1)
        ELSE IF exhausted THEN Must("exceededCarriesLast", "exceeded" \in DOMAIN Line /\ Line.exStatus = (IF r.err = "none" THEN r.status ELSE -1))
        ELSE IF r.err = "none" THEN Must("lastResponse", Line.status = r.status) /\ Must("bodyReadable", Line.bodyReadable /\ Line.bodyEqual)
        ELSE Must("lastError", Line.status = -1)
  /\ fin' = TRUE /\ UNCHANGED <<hc, att, lastEnd, lastStart>> /\ l' = l + 1

\* C19: once everything returned: no context merger left, every response that was not handed to the caller is closed
HQuiesce ==
  /\ l <= Len(Trace) /\ Line.ev = "HQuiesce" /\ fin
  /\ Must("mergerLeak", Line.live = 0)
  /\ Must("responseNotClosed", Line.unclosed = 0)
  /\ UNCHANGED <<hc, att, lastEnd, lastStart, fin>> /\ l' = l + 1

\* gRPC: the interceptor passes arguments, reply and error through and carries metadata / values / deadline
GCall ==
  /\ l <= Len(Trace) /\ Line.ev = "GCall"
  /\ Line.n = att + 1
  /\ Must("grpcRetryOnlyRetryable", att > 0 => Line.prevRetryable /\ att <= hc.maxRetries)
  /\ Must("grpcArgs", Line.sameArgs) /\ Must("ctxValues", Line.ctxValues) /\ Must("ctxDeadline", Line.ctxDeadline) /\ Must("ctxMetadata", Line.ctxMetadata)
  /\ att' = att + 1 /\ UNCHANGED <<hc, lastEnd, lastStart, fin>> /\ l' = l + 1
GFinal ==
  /\ l <= Len(Trace) /\ Line.ev = "GFinal" /\ ~fin
  /\ Line.attempts = att /\ Must("grpcReply", Line.sameReply /\ Line.sameError)
  /\ Must("grpcRetriesAllRetryable", Line.lastRetryable => att = hc.maxRetries + 1)
  /\ Must("mergerLeak", Line.live = 0)
  /\ fin' = TRUE /\ UNCHANGED <<hc, att, lastEnd, lastStart>> /\ l' = l + 1

\* C19: round trippers built without an inner transport share the default transport: N sequential executions through N fresh
\* round trippers (loopback server, bodies read and closed) reuse its idle connection instead of opening one each
HNilInner ==
  /\ l <= Len(Trace) /\ Line.ev = "NilInner"
  /\ Must("nilInnerSharesDefaultTransport", Line.executions >= 1 /\ Line.conns <= 2)
  /\ UNCHANGED <<hc, att, lastEnd, lastStart, fin>> /\ l' = l + 1

HDone == l = Len(Trace) + 1 /\ PrintT("TRACE-ACCEPTED") /\ l' = l + 1 /\ UNCHANGED <<hc, att, lastEnd, lastStart, fin>>

HInit == l = 1 /\ hc = [script |-> <<>>, maxRetries |-> 0, unitsPerSec |-> 1, policies |-> <<>>, seekFailFrom |-> 0] /\ att = 0 /\ lastEnd = 0 /\ lastStart = 0 /\ fin = FALSE /\ TLCSet(1, 1)
\* C19: hedged attempts that all end with a response the hedge policy does not accept (loopback server, N sequential executions):
\* the response that is not handed to the caller is released - closed, or its attempt's context cancelled
HHedgeLosers ==
  /\ l <= Len(Trace) /\ Line.ev = "HedgeLosers"
  /\ Must("hedgeLoserReleased", Line.executions >= 1 /\ Line.responses >= 2 * Line.executions /\ Line.unreleased = 0)
  /\ UNCHANGED <<hc, att, lastEnd, lastStart, fin>> /\ l' = l + 1

HNext == HConfig \/ HReq \/ HFinal \/ HQuiesce \/ HNilInner \/ HHedgeLosers \/ GCall \/ GFinal \/ HDone
HSpec == HInit /\ [][HNext]_hvars
ProgressPrint == IF TLCGet(1) < l THEN PrintT(<<"HWM", l>>) /\ TLCSet(1, l) ELSE TRUE
=============================================================================
