----------------------------- MODULE FailsafeRef -----------------------------
(* C01: the small-step machine (Failsafe.tla, written from the code) refines the compositional nesting semantics     *)
(* (Nesting.tla, written from the documentation): whenever an execution has finished, re-evaluating the same stack on  *)
(* the same outcome script from the situation the execution started in, by recursion on P1(P2(...(fn))), gives the same *)
(* returned value and error, the same overall verdict, the same number of function invocations and leaves every        *)
(* stateful policy in the same state.                                                                                   *)
EXTENDS Failsafe

Nest == INSTANCE Nesting

NestingRefinement ==
  (m.x.mode = "fin" /\ Len(fin) > 0) =>
    LET sg0 == [pol |-> m.x.pol0, k |-> 1, now |-> m.x.t0, t0 |-> m.x.t0, script |-> m.x.script, ck |-> m.x.ck,
                f |-> [i \in 1..N |-> 0], ex |-> [i \in 1..N |-> FALSE]]
        ev == Nest!Eval(stack, 1, sg0) IN
    /\ ev.o = Pair(m.x.res.r, m.x.res.e)
    /\ ev.ok = m.x.res.sall
    /\ ev.sg.k - 1 = m.x.calls
    /\ ev.sg.pol = m.pol
    /\ ev.sg.now = m.now
=============================================================================
