------------------------------ MODULE Failsafe ------------------------------
(* The failsafe-go execution machine, sequential configuration ("Seq"): one execution at a time through a  *)
(* stack of policies, the wrapped function answering from an environment-chosen script.                    *)
(*                                                                                                         *)
(* Step(s) is the CODE-SHAPED small-step semantics: executor.execute's reverse-order Apply composition,    *)
(* BaseExecutor.Apply (PreExecute short-circuit / inner call / PostExecute), every policy executor's       *)
(* overrides, the PolicyResult flags Done/Success/SuccessAll with WithDone/WithFailure, the execution's    *)
(* counters and per-copy last result, and every listener call as an event with the snapshot user code sees.*)
(* One TLC action = one environment choice (start an execution / the function returns an outcome); the     *)
(* deterministic steps up to the next choice are folded into it (RunToChoice).                             *)
(*                                                                                                         *)
(* Invariants further down are written from the property texts (C01 C02 C10 C11 C16 C17) over the event    *)
(* log; Nesting.tla gives the independent compositional semantics used for C01's refinement check.         *)
EXTENDS FailsafeBase, Json

CONSTANTS
  Stacks,     \* set of policy stacks (sequences of descriptors, outermost first)
  Outs,       \* outcomes the function may return: records [r, e]
  OkOut,      \* an outcome no configured policy treats as a failure (forced once MaxCalls is reached)
  MaxCalls,   \* per execution
  Execs,      \* successive executions on the same policy instances
  CtxKeys     \* cache key carried by the execution's context: "none" (absent), "" (empty string), "nonstring", or a key

VARIABLES stack, m, fin
vars == <<stack, m, fin>>

N == Len(stack)

----------------------------------------------------------------------------
(* ---- machine state ---- *)
\* which execution object a layer sees: timeouts and hedges hand a fresh copy to everything inside them
ObjOf(i) == LET S == {j \in 1..(i - 1) : stack[j].k \in {"to", "hg"}} IN IF S = {} THEN 0 ELSE CHOOSE j \in S : \A k \in S : k <= j

StatefulIds == {stack[i].id : i \in {j \in 1..N : stack[j].k \in {"cb", "rl", "bh", "cache"}}}
InitPol(p) == CASE p.k = "cb" -> BO(p.cfg)!NewClosed
                [] p.k = "rl" -> [per |-> 0, left |-> p.m]     \* current period and permits left in it
                [] p.k = "bh" -> p.pre          \* permits in use (pre: taken through the standalone API before the run)
                [] p.k = "cache" -> {}          \* set of [k, v]
DescOf(id) == stack[CHOOSE i \in 1..N : stack[i].k \in {"cb", "rl", "bh", "cache"} /\ stack[i].id = id]

FreshX(ck) ==
  [mode |-> "down", i |-> 1, res |-> Failure(Nil), ck |-> ck, t0 |-> 0, pol0 |-> <<>>,
   rs |-> [i \in 1..N |-> [failed |-> 0, exceeded |-> FALSE]],
   hs |-> [i \in 1..N |-> 0],
   att |-> 1, ret |-> 0, hdg |-> 0, exe |-> 0, calls |-> 0,
   script |-> <<>>, ev |-> <<>>,
   objLast |-> [j \in 0..N |-> NoLast], objHedge |-> [j \in 0..N |-> FALSE]]

\* event with the counters and the last result/error the user code would read from the event's execution view
Ev(s, name, layer, last, extra) ==
  [s EXCEPT !.x.ev = Append(@, [ev |-> name, L |-> layer, att |-> s.x.att, exe |-> s.x.exe, ret |-> s.x.ret, hdg |-> s.x.hdg,
                                 lr |-> last.r, le |-> last.e, x |-> extra,
                                 st |-> s.x.t0, el |-> s.now - s.x.t0])]       \* StartTime() / ElapsedTime() as user code reads them there
ObjLastAt(s, i) == s.x.objLast[ObjOf(i)]

Desc(s) == [s EXCEPT !.x.i = @ + 1]
Ret(s, j, pr) == [s EXCEPT !.x.mode = "up", !.x.i = j, !.x.res = pr]
\* timeout / hedge: CopyForCancellable / CopyForHedge: the inner layers get a copy of the execution as it is now
CopyObj(s, i, hedge) == [s EXCEPT !.x.objLast[i] = s.x.objLast[ObjOf(i)],
                                  !.x.objHedge[i] = hedge \/ s.x.objHedge[ObjOf(i)]]

RECURSIVE AddBrEvents(_, _, _)
AddBrEvents(s, i, evs) ==
  IF evs = <<>> THEN s
  ELSE AddBrEvents(Ev(s, "StateChanged", i, NoLast, [old |-> evs[1].old, new |-> evs[1].new, m |-> evs[1].m]), i, Tail(evs))

CacheKeyOf(p, ck) == IF ck \in {"none", "nonstring"} THEN p.key ELSE ck     \* a string key in the context wins (also the empty one)
CacheGet(c, key) == {e \in c : e.k = key}

----------------------------------------------------------------------------
(* ---- Down: Apply's prologue / PreExecute of layer i ---- *)
Down(s) ==
  LET i == s.x.i   p == stack[i] IN
  CASE p.k \in {"retry", "fb"} -> Desc(s)
    [] p.k = "to" -> Desc(CopyObj(s, i, FALSE))
    [] p.k = "hg" -> Desc(CopyObj([s EXCEPT !.x.hs[i] = 1], i, FALSE))
    [] p.k = "cb" ->
         LET a == BO(p.cfg)!TryAcq(s.pol[p.id], s.now)
             s1 == AddBrEvents([s EXCEPT !.pol[p.id] = a.b], i, a.ev) IN
         IF a.ret THEN Desc(s1) ELSE Ret(s1, i - 1, Failure(Leaf("ErrOpen")))
    [] p.k = "rl" ->
         LET st == RlRoll(p, s.pol[p.id], s.now) IN
         IF st.left > 0 THEN Desc([s EXCEPT !.pol[p.id] = [st EXCEPT !.left = @ - 1]])
         ELSE Ret(Ev([s EXCEPT !.pol[p.id] = st], "OnRateLimitExceeded", i, ObjLastAt(s, i), <<>>), i - 1, Failure(Leaf("RateExceeded")))
    [] p.k = "bh" ->
         IF s.pol[p.id] < p.max THEN Desc([s EXCEPT !.pol[p.id] = @ + 1])
         ELSE Ret(Ev(s, "OnFull", i, ObjLastAt(s, i), <<>>), i - 1, Failure(Leaf("ErrFull")))
    [] p.k = "cache" ->
         LET key == CacheKeyOf(p, s.x.ck) IN
         IF key = "" THEN Desc(Ev(s, "OnCacheMiss", i, ObjLastAt(s, i), <<>>))          \* MissWithoutKey
         ELSE LET s1 == Ev(s, "CacheGet", i, NoLast, key)   hit == CacheGet(s.pol[p.id], key) IN
              IF hit # {} THEN LET v == (CHOOSE e \in hit : TRUE).v IN
                               Ret(Ev(s1, "OnCacheHit", i, Pair(v, Nil), <<>>), i - 1, PR(v, Nil, TRUE, TRUE, TRUE))
              ELSE Desc(Ev(s1, "OnCacheMiss", i, ObjLastAt(s, i), <<>>))

(* ---- Up: what layer i does with the result of what it wraps ---- *)
RetryUp(s, i, p, pr) ==
  IF s.x.rs[i].exceeded THEN Ret(s, i - 1, pr)                                        \* RetryExhaustedPassThrough
  ELSE IF ~IsFailureX(p.h, pr.r, pr.e)
  THEN LET pr1 == WithDone(pr, TRUE, TRUE) IN Ret(Ev(s, "OnSuccess", i, Pair(pr.r, pr.e), <<>>), i - 1, pr1)
  ELSE LET pr1 == WithFailure(pr)
           last == Pair(pr.r, pr.e)
           s1 == Ev(s, "OnFailure", i, last, <<>>)
           f == s.x.rs[i].failed + 1
           elapsed == s.now - s.x.t0
           ex == (p.max # -1 /\ f > p.max) \/ (p.maxd # 0 /\ elapsed > p.maxd)      \* maxRetriesExceeded || maxDurationExceeded
           ab == AbortsCode(p.a, pr.r, pr.e)
           \* getDelay: fixed delay, clamped to the remaining max duration, never negative
           base == RetryDelayOf(p, pr.r, pr.e)
           dl0 == IF p.maxd # 0 THEN (IF base < p.maxd - elapsed THEN base ELSE p.maxd - elapsed) ELSE base
           dl == IF dl0 < 0 THEN 0 ELSE dl0
           shouldRetry == ~ab /\ ~ex /\ (p.max = -1 \/ p.max > 0)
           done == ab \/ ~shouldRetry
           s2 == [s1 EXCEPT !.x.rs[i] = [failed |-> f, exceeded |-> ex]]
           s3 == IF ab THEN Ev(s2, "OnAbort", i, last, <<>>) ELSE s2
           s4 == IF ex /\ ~ab THEN Ev(s3, "OnRetriesExceeded", i, last, <<>>) ELSE s3
       IN IF ex /\ ~p.rlf THEN Ret(s4, i - 1, Failure(Exceeded(pr.r, pr.e)))
          ELSE IF done THEN Ret(s4, i - 1, WithDone(pr1, TRUE, FALSE))
          ELSE \* RecordResult, OnRetryScheduled, the delay elapses, InitializeRetry, OnRetry, run the inner layers again
               LET s5 == [s4 EXCEPT !.x.objLast[ObjOf(i)] = last]
                   s6 == Ev(s5, "OnRetryScheduled", i, last, [delay |-> dl])
                   s7 == [s6 EXCEPT !.x.att = @ + 1, !.x.ret = @ + 1, !.now = @ + dl]
                   s8 == Ev(s7, "OnRetry", i, last, <<>>)
               IN [s8 EXCEPT !.x.mode = "down", !.x.i = i + 1]

Up(s) ==
  LET i == s.x.i   p == stack[i]   pr == s.x.res   last == Pair(pr.r, pr.e) IN
  CASE p.k = "retry" -> RetryUp(s, i, p, pr)
    [] p.k = "cb" ->
         IF IsFailureX(p.h, pr.r, pr.e)
         THEN LET s1 == Ev(s, "OnFailure", i, last, <<>>)
                  r == BO(p.cfg)!RecordD(s1.pol[p.id], FALSE, s.now, DfnOf(p))      \* the delay function (if any) is asked about this failure
              IN Ret(AddBrEvents([s1 EXCEPT !.pol[p.id] = r.b], i, r.ev), i - 1, WithFailure(pr))
         ELSE LET s1 == Ev(s, "OnSuccess", i, last, <<>>)
                  r == BO(p.cfg)!Record(s1.pol[p.id], TRUE, s.now)
              IN Ret(AddBrEvents([s1 EXCEPT !.pol[p.id] = r.b], i, r.ev), i - 1, WithDone(pr, TRUE, TRUE))
    [] p.k = "rl" -> Ret(s, i - 1, pr)                                                \* its own Apply: no PostExecute
    [] p.k = "bh" -> Ret([s EXCEPT !.pol[p.id] = @ - 1], i - 1, pr)                   \* PostExecute = ReleasePermit
    [] p.k = "cache" ->
         LET should == (p.ifc = {} /\ IsNil(pr.e)) \/ (\E c \in p.ifc : MatchesX(c, pr.r, pr.e))
             key == CacheKeyOf(p, s.x.ck) IN
         IF should /\ key # ""
         THEN LET s1 == [s EXCEPT !.pol[p.id] = {e \in @ : e.k # key} \cup {[k |-> key, v |-> pr.r]}]
                  s2 == Ev(s1, "CacheSet", i, Pair(pr.r, Nil), key)
              IN Ret(Ev(s2, "OnResultCached", i, last, <<>>), i - 1, pr)
         ELSE Ret(s, i - 1, pr)
    [] p.k = "to" ->
         IF IsX(pr.e, "TimeoutExceeded") THEN Ret(s, i - 1, WithFailure(pr)) ELSE Ret(s, i - 1, WithDone(pr, TRUE, TRUE))
    [] p.k = "fb" ->
         LET failed == IsFailureX(p.h, pr.r, pr.e)
             pr1 == IF failed THEN WithFailure(pr) ELSE WithDone(pr, TRUE, TRUE)
             s1 == Ev(s, IF failed THEN "OnFailure" ELSE "OnSuccess", i, last, <<>>)
         IN IF pr1.succ THEN Ret(s1, i - 1, pr1)
            ELSE LET s2 == Ev(s1, "FallbackFn", i, last, <<>>)
                     s3 == Ev(s2, "OnFallbackExecuted", i, Pair(p.fr, p.fe), <<>>)
                     ok == ~IsFailureX(p.h, p.fr, p.fe)
                 IN Ret(s3, i - 1, PR(p.fr, p.fe, TRUE, ok, ok))
    [] p.k = "hg" ->
         LET cancellable == (p.c = {}) \/ AbortsCode(p.c, pr.r, pr.e)
             final == s.x.hs[i] = p.maxh + 1 IN
         IF cancellable \/ final THEN Ret(s, i - 1, pr)                                \* its own Apply: no PostExecute
         ELSE \* the hedge delay elapses, CopyForHedge, OnHedge, next attempt
              LET s1 == [s EXCEPT !.now = @ + p.delay, !.x.att = @ + 1, !.x.hdg = @ + 1, !.x.hs[i] = @ + 1]
                  s2 == CopyObj(s1, i, TRUE)
                  s3 == Ev(s2, "OnHedge", i, s2.x.objLast[i], <<>>)
              IN [s3 EXCEPT !.x.mode = "down", !.x.i = i + 1]

\* executor.execute's epilogue: completion listeners chosen from SuccessAll
Finish(s) ==
  LET pr == s.x.res   last == Pair(pr.r, pr.e)
      s1 == Ev(s, IF pr.sall THEN "ExecOnSuccess" ELSE "ExecOnFailure", 0, last, <<>>)
      s2 == Ev(s1, "ExecOnDone", 0, last, <<>>)
  IN [s2 EXCEPT !.x.mode = "fin"]

AtChoice(s) == s.x.mode = "fin" \/ (s.x.mode = "down" /\ s.x.i = N + 1)
Step(s) == IF s.x.mode = "down" THEN Down(s) ELSE IF s.x.i = 0 THEN Finish(s) ELSE Up(s)
RECURSIVE RunToChoice(_)
RunToChoice(s) == IF AtChoice(s) THEN s ELSE RunToChoice(Step(s))

----------------------------------------------------------------------------
(* ---- environment ---- *)
Probe(s) == [id \in StatefulIds |->
               LET p == DescOf(id) IN
               CASE p.k = "cb" -> [k |-> "cb", state |-> s.pol[id].st, m |-> BO(p.cfg)!Metrics(s.pol[id].stats),
                                   permits |-> IF s.pol[id].st = "halfopen" THEN s.pol[id].permitted ELSE -1]
                 [] p.k = "rl" -> [k |-> "rl", left |-> RlRoll(p, s.pol[id], s.now).left]
                 [] p.k = "bh" -> [k |-> "bh", used |-> s.pol[id]]
                 [] p.k = "cache" -> [k |-> "cache", entries |-> s.pol[id]]]

Summary(s) == [ck |-> s.x.ck, script |-> s.x.script, calls |-> s.x.calls, r |-> s.x.res.r, e |-> s.x.res.e,
               success |-> s.x.res.sall, ev |-> s.x.ev, probe |-> Probe(s), att |-> s.x.att, exe |-> s.x.exe,
               ret |-> s.x.ret, hdg |-> s.x.hdg, now |-> s.now]

Init ==
  /\ stack \in Stacks
  /\ m = [pol |-> [id \in StatefulIds |-> InitPol(DescOf(id))], now |-> 0, x |-> [FreshX("none") EXCEPT !.mode = "fin"]]
  /\ fin = <<>>

StartExec ==
  /\ m.x.mode = "fin" /\ Len(fin) < Execs
  /\ \E ck \in CtxKeys :
       LET s == RunToChoice([m EXCEPT !.x = [FreshX(ck) EXCEPT !.t0 = m.now, !.pol0 = m.pol]]) IN
       /\ m' = s
       /\ fin' = IF s.x.mode = "fin" THEN Append(fin, Summary(s)) ELSE fin
  /\ UNCHANGED stack

\* the wrapped function is invoked (the snapshot is what Execution methods return inside it) and returns o
FnReturns ==
  /\ m.x.mode = "down" /\ m.x.i = N + 1
  /\ \E o \in (IF m.x.calls < MaxCalls THEN Outs ELSE {OkOut}) :
       LET s0 == Ev(m, "FnStart", N + 1, ObjLastAt(m, N + 1), [hedge |-> m.x.objHedge[ObjOf(N + 1)]])
           s1 == [s0 EXCEPT !.now = @ + o.d, !.x.exe = @ + 1, !.x.calls = @ + 1, !.x.script = Append(@, o),
                            !.x.mode = "up", !.x.i = N, !.x.res = PR(o.r, o.e, TRUE, TRUE, TRUE)]
           s == RunToChoice(s1) IN
       /\ m' = s
       /\ fin' = IF s.x.mode = "fin" THEN Append(fin, Summary(s)) ELSE fin
  /\ UNCHANGED stack

Next == StartExec \/ FnReturns
Spec == Init /\ [][Next]_vars

Complete == m.x.mode = "fin" /\ Len(fin) = Execs
Emit == Complete => PrintT(ToJson([stack |-> stack, execs |-> fin]))

----------------------------------------------------------------------------
(* ---- properties, from the statements; evaluated on every finished execution ---- *)
EvsOf(f) == f.ev
IdxWhere(f, P(_)) == {k \in 1..Len(f.ev) : P(f.ev[k])}
CountEv(f, name, layer) == Cardinality({k \in 1..Len(f.ev) : f.ev[k].ev = name /\ f.ev[k].L = layer})
CountName(f, name) == Cardinality({k \in 1..Len(f.ev) : f.ev[k].ev = name})
LastFin == fin[Len(fin)]
OnFin(P(_)) == (m.x.mode = "fin" /\ Len(fin) > 0) => P(LastFin)

\* C16: exactly one OnDone, exactly one of OnSuccess/OnFailure, matching the returned result; last events of the log
C16_Completion == OnFin(LAMBDA f :
  /\ CountName(f, "ExecOnDone") = 1
  /\ CountName(f, "ExecOnSuccess") + CountName(f, "ExecOnFailure") = 1
  /\ (CountName(f, "ExecOnSuccess") = 1) = f.success
  /\ f.ev[Len(f.ev)].ev = "ExecOnDone" /\ f.ev[Len(f.ev)].lr = f.r /\ f.ev[Len(f.ev)].le = f.e
  /\ f.ev[Len(f.ev) - 1].lr = f.r /\ f.ev[Len(f.ev) - 1].le = f.e)

\* C16: retry listeners: scheduled = started (nothing cancels in this configuration); exceeded/abort at most once per policy
\* (a retry policy that an enclosing retry or hedge policy applies several times in one execution can abort once per
\* application: "per policy and execution" is read per application there; its budget, and so OnRetriesExceeded, stays per execution)
Reapplied(i) == \E j \in 1..(i - 1) : stack[j].k \in {"retry", "hg"}
C16_Retry == OnFin(LAMBDA f : \A i \in 1..N : stack[i].k = "retry" =>
  /\ CountEv(f, "OnRetryScheduled", i) = CountEv(f, "OnRetry", i)
  /\ CountEv(f, "OnRetriesExceeded", i) <= 1
  /\ (~Reapplied(i) => CountEv(f, "OnAbort", i) <= 1)
  /\ (~Reapplied(i) => CountEv(f, "OnRetriesExceeded", i) + CountEv(f, "OnAbort", i) <= 1)
  \* every result the policy handled was classified once
  /\ CountEv(f, "OnFailure", i) >= CountEv(f, "OnRetry", i))

\* C02: a retry policy re-invokes what it wraps at most maxRetries times per execution
C02_Bound == OnFin(LAMBDA f : \A i \in 1..N : (stack[i].k = "retry" /\ stack[i].max # -1) => CountEv(f, "OnRetry", i) <= stack[i].max)
\* ... and only after an outcome it classified as a failure, never after a success or an abort-matching one
C02_OnlyAfterFailure == OnFin(LAMBDA f : \A k \in 1..Len(f.ev) :
   (f.ev[k].ev = "OnRetry" /\ stack[f.ev[k].L].k = "retry") =>
      LET p == stack[f.ev[k].L] IN IsFailureX(p.h, f.ev[k].lr, f.ev[k].le) /\ ~AbortsCode(p.a, f.ev[k].lr, f.ev[k].le))
\* when the only policy is a retry policy: invocations <= maxRetries + 1, and the final result has the documented shape
C02_Single == OnFin(LAMBDA f : (N = 1 /\ stack[1].k = "retry") =>
   LET p == stack[1]   lastO == f.script[Len(f.script)] IN
   /\ (p.max # -1 => f.calls <= p.max + 1)
   /\ LET unchanged == f.r = lastO.r /\ f.e = lastO.e
           exceededErr == f.e = Exceeded(lastO.r, lastO.e) /\ (p.maxd = 0 => f.calls = p.max + 1) IN
      IF ~IsFailureX(p.h, lastO.r, lastO.e) \/ p.rlf THEN unchanged           \* stopping outcome unchanged
      ELSE IF AbortsCode(p.a, lastO.r, lastO.e)
           THEN (IF f.calls = p.max + 1 \/ p.maxd # 0 THEN unchanged \/ exceededErr ELSE unchanged)   \* abort on the last allowed attempt: either
           ELSE exceededErr)

\* C17: the counters user code can observe obey their identities at every observation point
C17_Identities == OnFin(LAMBDA f : \A k \in 1..Len(f.ev) :
   /\ f.ev[k].att = 1 + f.ev[k].ret + f.ev[k].hdg
   /\ f.ev[k].exe = Cardinality({j \in 1..(k - 1) : f.ev[j].ev = "FnStart"})
   /\ f.ev[k].exe <= f.ev[k].att)
\* C17: the last result seen by an attempt is the outcome of the most recent completed invocation recorded for a retry
C17_LastSeenByFn == OnFin(LAMBDA f : \A k \in 1..Len(f.ev) :
   (f.ev[k].ev = "FnStart" /\ (\A i \in 1..N : stack[i].k \notin {"to", "hg"})) =>
      LET prevRetry == {j \in 1..(k - 1) : f.ev[j].ev = "OnRetry"} IN
      IF prevRetry = {} THEN f.ev[k].lr = "R0" /\ IsNil(f.ev[k].le)
      ELSE LET j == CHOOSE j \in prevRetry : \A j2 \in prevRetry : j2 <= j IN f.ev[k].lr = f.ev[j].lr /\ f.ev[k].le = f.ev[j].le)

\* C10: the fallback runs iff what is inside it returned a failure by its own conditions, exactly once per such failure,
\* sees that failure, and its output is classified by the same conditions
C10_Fallback == OnFin(LAMBDA f : \A i \in 1..N : stack[i].k = "fb" =>
   LET p == stack[i] IN
   /\ CountEv(f, "FallbackFn", i) = CountEv(f, "OnFailure", i)
   /\ CountEv(f, "OnFallbackExecuted", i) = CountEv(f, "FallbackFn", i)
   /\ \A k \in 1..Len(f.ev) : (f.ev[k].L = i /\ f.ev[k].ev = "OnFailure") => IsFailureX(p.h, f.ev[k].lr, f.ev[k].le)
   /\ \A k \in 1..Len(f.ev) : (f.ev[k].L = i /\ f.ev[k].ev = "OnSuccess") => ~IsFailureX(p.h, f.ev[k].lr, f.ev[k].le)
   /\ \A k \in 1..Len(f.ev) : (f.ev[k].L = i /\ f.ev[k].ev = "FallbackFn") =>
         f.ev[k - 1].ev = "OnFailure" /\ f.ev[k - 1].L = i /\ f.ev[k].lr = f.ev[k - 1].lr /\ f.ev[k].le = f.ev[k - 1].le)
C10_Outermost == OnFin(LAMBDA f : (N >= 1 /\ stack[1].k = "fb") =>
   LET p == stack[1] IN
   IF CountEv(f, "FallbackFn", 1) = 1 THEN f.r = p.fr /\ f.e = p.fe /\ f.success = ~IsFailureX(p.h, p.fr, p.fe)
   ELSE ~IsFailureX(p.h, f.r, f.e))

\* C11: a hit returns the cached value with no error and nothing inside the cache policy runs or is touched
C11_HitSkipsInner == OnFin(LAMBDA f : \A k \in 1..Len(f.ev) : f.ev[k].ev = "OnCacheHit" =>
   /\ k < Len(f.ev)
   /\ f.ev[k + 1].L < f.ev[k].L                     \* the next thing that happens is outside the cache policy
   /\ IsNil(f.ev[k].le))
C11_StoreIff == OnFin(LAMBDA f : \A i \in 1..N : stack[i].k = "cache" =>
   /\ CountEv(f, "CacheSet", i) = CountEv(f, "OnResultCached", i)
   /\ CountEv(f, "CacheSet", i) <= CountEv(f, "OnCacheMiss", i)
   /\ (CacheKeyOf(stack[i], f.ck) = "" => CountEv(f, "CacheGet", i) = 0 /\ CountEv(f, "CacheSet", i) = 0))
C11_Outermost == OnFin(LAMBDA f : (N >= 1 /\ stack[1].k = "cache" /\ CountEv(f, "OnCacheHit", 1) = 1) =>
   f.calls = 0 /\ IsNil(f.e) /\ f.success /\ Len(f.ev) = 4)       \* Get, hit, OnSuccess, OnDone

\* C01: the function is invoked only when every enclosing policy admitted the attempt: between a rejection
\* (ErrOpen / ErrFull / rate limit / cache hit) at layer i and the next event of an enclosing layer there is no FnStart
C01_Admission == OnFin(LAMBDA f : \A k \in 1..Len(f.ev) :
   (f.ev[k].ev \in {"OnFull", "OnRateLimitExceeded", "OnCacheHit"}) =>
      (k < Len(f.ev) /\ f.ev[k + 1].ev # "FnStart" /\ f.ev[k + 1].L < f.ev[k].L))
=============================================================================
