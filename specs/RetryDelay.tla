----------------------------- MODULE RetryDelay -----------------------------
(* C13: the envelope of every delay a retry policy schedules, as a nondeterministic relation.              *)
(* Quantities are integers in a unit chosen per configuration (1/1000 of the base delay in trace           *)
(* validation); a logged duration d is the pair (q, rz) with q = floor(d / unit), rz = (d mod unit = 0).   *)
(*                                                                                                         *)
(* State: cfg (the policy configuration), nom (the un-jittered backoff delay last used - what the code     *)
(* keeps as lastDelay), k (retries decided so far), lastSched (instant + delay of the last schedule).      *)
(* Schedule(q, rz, el, fv) is enabled exactly when a delay (q, rz) is allowed by the property at elapsed   *)
(* time el with the delay function returning fv (-1 = no value).                                           *)
EXTENDS Integers, Sequences, TLC

VARIABLES cfg, nom, k, lastSched
rdvars == <<cfg, nom, k, lastSched>>

(* cfg = [kind: "none" | "fixed" | "backoff" | "random", d, maxd, fp, fq (factor = fp/fq), dmin, dmax,       *)
(*        jit (jitter duration), jfp (jitter factor in percent), maxdur (0 = none), tol (rounding tolerance)] *)

Max(a, b) == IF a > b THEN a ELSE b
Min(a, b) == IF a < b THEN a ELSE b

\* the un-jittered delay the property prescribes for the next schedule: a range [lo, hi] (hi = lo except for
\* random delays and for the float32 factor's rounding, which tol accounts for)
\* (nom is kept in thousandths of a unit so that repeated multiplication by a rational factor does not drift)
NextNominal(fv) ==
  IF fv # -1 THEN [lo |-> fv, hi |-> fv, nom |-> nom]                                  \* the delay function's value
  ELSE CASE cfg.kind = "none" -> [lo |-> 0, hi |-> 0, nom |-> nom]
         [] cfg.kind = "fixed" -> [lo |-> cfg.d, hi |-> cfg.d, nom |-> cfg.d * 1000]
         [] cfg.kind = "random" -> [lo |-> cfg.dmin, hi |-> cfg.dmax, nom |-> nom]
         [] cfg.kind = "backoff" ->
              \* min(delay * factor^j, maxDelay) for the j-th consecutive backoff delay: never decreases, never exceeds maxDelay
              LET n == IF nom = 0 \/ k = 0 THEN cfg.d * 1000 ELSE Min((nom * cfg.fp) \div cfg.fq, cfg.maxd * 1000) IN
              [lo |-> n \div 1000, hi |-> (n + 999) \div 1000, nom |-> n]

\* jitter: at most the configured jitter (duration) or jitter factor away from the un-jittered delay; none for a zero delay
JitterLo(n) == IF n = 0 THEN 0 ELSE IF cfg.jit # 0 THEN n - cfg.jit ELSE IF cfg.jfp # 0 THEN (n * (100 - cfg.jfp)) \div 100 ELSE n
JitterHi(n) == IF n = 0 THEN 0 ELSE IF cfg.jit # 0 THEN n + cfg.jit ELSE IF cfg.jfp # 0 THEN (n * (100 + cfg.jfp)) \div 100 + 1 ELSE n

\* d = (q, rz) lies in [lo, hi] up to the tolerance.  With a 1 ns unit (tol = 8) the code's whole-nanosecond truncation of every
\* backoff step is multiplied by the factor at every later step: after many steps the deviation from the real-number formula is
\* a fraction of the value itself (at most value / (delay * (factor - 1)), under half a percent for the configurations used)
TolAt(hi) == cfg.tol + (IF cfg.tol >= 8 THEN hi \div 200 ELSE 0)
Within(q, rz, lo, hi) == q >= lo - TolAt(hi) /\ (q < hi + TolAt(hi) \/ (q = hi + TolAt(hi) /\ rz))

\* is the scheduled delay (q, rz) allowed at elapsed time el (floor, units)?
Allowed(q, rz, el, fv) ==
  LET nn == NextNominal(fv)
      lo == JitterLo(nn.lo)   hi == JitterHi(nn.hi)
      rem == cfg.maxdur - el                         \* remaining max duration (el is a floor: rem may be up to 1 unit too large)
  IN /\ q >= 0
     /\ IF cfg.maxdur = 0 THEN Within(q, rz, Max(lo, 0), Max(hi, 0))
        ELSE IF rem <= 0 THEN q = 0 /\ rz
        ELSE /\ (q < rem \/ (q = rem /\ rz) \/ (cfg.tol > 0 /\ q <= rem))      \* never extends past the remaining max duration
             /\ Within(q, rz, Max(Min(lo, rem - 1), 0), Max(Min(hi, rem), 0))

Schedule(q, rz, el, fv, at) ==
  /\ Allowed(q, rz, el, fv)
  /\ nom' = NextNominal(fv).nom
  /\ k' = k + 1
  /\ lastSched' = [at |-> at, q |-> q, rz |-> rz]
  /\ UNCHANGED cfg

\* the next attempt never starts before the scheduled delay has elapsed: (gq, grz) = time from the schedule to the start
AttemptStarts(gq, grz) ==
  /\ lastSched.q >= 0
  /\ (gq > lastSched.q \/ (gq = lastSched.q /\ (lastSched.rz \/ ~grz)))
  /\ UNCHANGED rdvars

RDInit(c) == cfg = c /\ nom = 0 /\ k = 0 /\ lastSched = [at |-> 0, q |-> -1, rz |-> TRUE]

\* ---- what the relation implies (checked by TLC on a small integer model, MCRetryDelay) ----
NomBounded == cfg.kind = "backoff" => nom <= Max(cfg.maxd, cfg.d) * 1000
=============================================================================
