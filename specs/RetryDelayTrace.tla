-------------------------- MODULE RetryDelayTrace --------------------------
(* Trace validation (implementation -> specification) for C13: NDJSON traces recorded from real retry       *)
(* policies (OnRetryScheduled delays, attempt start instants, in virtual time) are accepted iff every event  *)
(* is a step of RetryDelay.  Many traces are concatenated; a "Config" line resets the machine.               *)
EXTENDS RetryDelay, Json, TLC

CONSTANT TraceFile
Trace == ndJsonDeserialize(TraceFile)

VARIABLE l
tvars == <<cfg, nom, k, lastSched, l>>

Ev == Trace[l]
Is(e) == l <= Len(Trace) /\ Ev.ev = e /\ l' = l + 1

TraceConfig2 ==
  /\ Is("Config")
  /\ cfg' = Ev.cfg /\ nom' = 0 /\ k' = 0 /\ lastSched' = [at |-> 0, q |-> -1, rz |-> TRUE]

TraceSched ==
  /\ Is("Sched")
  /\ Ev.retries = k                                   \* Retries() seen by the listener = retries decided before this one
  /\ Schedule(Ev.q, Ev.rz, Ev.el, Ev.fv, Ev.at)

TraceStart ==
  /\ Is("Start")
  /\ AttemptStarts(Ev.gq, Ev.grz)

TraceInit == l = 1 /\ cfg = [kind |-> "none", d |-> 0, maxd |-> 0, fp |-> 1, fq |-> 1, dmin |-> 0, dmax |-> 0, jit |-> 0, jfp |-> 0, maxdur |-> 0, tol |-> 0]
             /\ nom = 0 /\ k = 0 /\ lastSched = [at |-> 0, q |-> -1, rz |-> TRUE]
             /\ TLCSet(1, 1)
TraceNext == TraceConfig2 \/ TraceSched \/ TraceStart
TraceSpec == TraceInit /\ [][TraceNext]_tvars

\* every line consumed: the trace is a behaviour of the specification (the search is linear: every event is fully logged)
TraceAccepted == TLCGet("stats").diameter - 1 = Len(Trace)
\* position of the first unexplained line, for the rejection report
Progress == TLCSet(1, IF TLCGet(1) < l THEN l ELSE TLCGet(1))
=============================================================================
