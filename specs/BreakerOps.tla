----------------------------- MODULE BreakerOps -----------------------------
(* Pure operators on a circuit breaker state record, written from the code (circuitbreaker package): the  *)
(* bit ring of countingStats, the 10 buckets + summary + head of timedStats, the open state's shared       *)
(* reference to the previous state's stats, the half-open permit counter.  Used by Breaker.tla (standalone *)
(* machine, C03) and, instantiated per policy instance, by Failsafe.tla and BreakerConc.tla.               *)
EXTENDS Integers, Sequences, FiniteSets

CONSTANTS
  Cfg,      \* [fthr, fcap, frate, fexec, period (0 = count based; else = 10*SliceU), sthr, scap, delay]
  SliceU    \* units per time slice

Max(a, b) == IF a > b THEN a ELSE b
Min(a, b) == IF a < b THEN a ELSE b

----------------------------------------------------------------------------
(* ---- countingStats (circuitstats.go:29-125) ---- *)
NewCounting(size) ==
  [kind |-> "count", size |-> size, bits |-> [i \in 0..(size-1) |-> FALSE], head |-> 0, occ |-> 0, succ |-> 0, fail |-> 0]

\* setNext: evict the bit under head when full, then write and advance
CountRecord(s, ok) ==
  LET full == s.occ >= s.size
      evS == IF full /\ s.bits[s.head] THEN 1 ELSE 0
      evF == IF full /\ ~s.bits[s.head] THEN 1 ELSE 0
  IN [s EXCEPT !.occ = IF full THEN @ ELSE @ + 1,
               !.succ = @ - evS + (IF ok THEN 1 ELSE 0),
               !.fail = @ - evF + (IF ok THEN 0 ELSE 1),
               !.bits[s.head] = ok,
               !.head = (s.head + 1) % s.size]

(* ---- timedStats (circuitstats.go:128-228) ---- *)
NewTimed == [kind |-> "timed", b |-> [i \in 0..9 |-> [s |-> 0, f |-> 0]], sum |-> [s |-> 0, f |-> 0], head |-> 0]

\* currentBucket(): expire min(10, newHead-head) buckets after head, move head
TimedAdvance(s, t) ==
  LET nh == t \div SliceU IN
  IF nh > s.head THEN
     LET n == Min(10, nh - s.head)
         idxs == {((s.head + i + 1) % 10) : i \in 0..(n-1)}
         remS == LET RECURSIVE Sm(_) Sm(S) == IF S = {} THEN 0 ELSE LET x == CHOOSE x \in S : TRUE IN s.b[x].s + Sm(S \ {x}) IN Sm(idxs)
         remF == LET RECURSIVE Sm(_) Sm(S) == IF S = {} THEN 0 ELSE LET x == CHOOSE x \in S : TRUE IN s.b[x].f + Sm(S \ {x}) IN Sm(idxs)
     IN [s EXCEPT !.b = [i \in 0..9 |-> IF i \in idxs THEN [s |-> 0, f |-> 0] ELSE s.b[i]],
                  !.sum = [s |-> s.sum.s - remS, f |-> s.sum.f - remF],
                  !.head = nh]
  ELSE s

TimedRecord(s0, ok, t) ==
  LET s == TimedAdvance(s0, t)   i == s.head % 10 IN
  IF ok THEN [s EXCEPT !.b[i].s = @ + 1, !.sum.s = @ + 1]
        ELSE [s EXCEPT !.b[i].f = @ + 1, !.sum.f = @ + 1]

StRecord(s, ok, t) == IF s.kind = "count" THEN CountRecord(s, ok) ELSE TimedRecord(s, ok, t)
StSucc(s) == IF s.kind = "count" THEN s.succ ELSE s.sum.s
StFail(s) == IF s.kind = "count" THEN s.fail ELSE s.sum.f
StExec(s) == IF s.kind = "count" THEN s.occ ELSE s.sum.s + s.sum.f
\* uint(math.Round(x / n * 100)) : nearest integer, halves up
Pct(x, n) == IF n = 0 THEN 0 ELSE (200 * x + n) \div (2 * n)
StFRate(s) == Pct(StFail(s), StExec(s))
StSRate(s) == Pct(StSucc(s), StExec(s))
Metrics(s) == <<StExec(s), StFail(s), StFRate(s), StSucc(s), StSRate(s)>>

----------------------------------------------------------------------------
(* ---- states (circuitstates.go) ---- *)
ClosedStats == IF Cfg.period # 0 THEN NewTimed
               ELSE NewCounting(IF Cfg.fexec # 0 THEN Cfg.fexec ELSE Cfg.fcap)
HalfCap == IF Cfg.scap # 0 THEN Cfg.scap ELSE IF Cfg.fexec # 0 THEN Cfg.fexec ELSE Cfg.fcap

NewClosed == [st |-> "closed", stats |-> ClosedStats, openedAt |-> 0, odelay |-> 0, permitted |-> 0]
ToOpen(b, t, d) == [b EXCEPT !.st = "open", !.openedAt = t, !.odelay = d]          \* keeps previous stats (shared)
NewHalf == [st |-> "halfopen", stats |-> NewCounting(HalfCap), openedAt |-> 0, odelay |-> 0, permitted |-> HalfCap]

\* transitionTo: only when the state differs; the event carries the OLD state's metrics
\* dl: ComputeDelay(exec), else the configured delay (transitionTo: "if delay == -1 { delay = cb.Delay }")
TransD(b, to, t, dl) ==
  IF b.st = to THEN [b |-> b, ev |-> <<>>]
  ELSE [b |-> CASE to = "closed" -> NewClosed
                [] to = "open" -> ToOpen(b, t, IF dl = -1 THEN Cfg.delay ELSE dl)
                [] to = "halfopen" -> NewHalf,
        ev |-> <<[old |-> b.st, new |-> to, m |-> Metrics(b.stats)]>>]
Trans(b, to, t) == TransD(b, to, t, -1)

\* closedState.checkThresholdAndReleasePermit
ClosedCheck(b, t, dl) ==
  IF /\ StExec(b.stats) >= Cfg.fexec
     /\ \/ (Cfg.frate # 0 /\ StFRate(b.stats) >= Cfg.frate)
        \/ (Cfg.frate = 0 /\ StFail(b.stats) >= Cfg.fthr)
  THEN TransD(b, "open", t, dl) ELSE [b |-> b, ev |-> <<>>]

\* halfOpenState.checkThresholdAndReleasePermit (the permit++ lands on the old state object: lost on a transition)
HalfCheck(b, t, dl) ==
  LET s == b.stats
      sx == IF Cfg.sthr # 0 THEN StSucc(s) >= Cfg.sthr
            ELSE IF Cfg.frate # 0 THEN StExec(s) >= Cfg.fexec /\ StSRate(s) > 100 - Cfg.frate
            ELSE StSucc(s) > Cfg.fcap - Cfg.fthr
      fx == IF Cfg.sthr # 0 THEN StFail(s) > Cfg.scap - Cfg.sthr
            ELSE IF Cfg.frate # 0 THEN StExec(s) >= Cfg.fexec /\ StFRate(s) >= Cfg.frate
            ELSE StFail(s) >= Cfg.fthr
  IN IF sx THEN Trans(b, "closed", t)
     ELSE IF fx THEN TransD(b, "open", t, dl)
     ELSE [b |-> [b EXCEPT !.permitted = @ + 1], ev |-> <<>>]

\* recordSuccess / recordFailure: record into the current state's stats (open: the previous state's), then check
\* dl = the delay function's value for the failing execution being recorded (-1: none / standalone call)
RecordD(b, ok, t, dl) ==
  LET b1 == [b EXCEPT !.stats = StRecord(b.stats, ok, t)] IN
  CASE b.st = "closed" -> ClosedCheck(b1, t, dl)
    [] b.st = "open" -> [b |-> b1, ev |-> <<>>]
    [] b.st = "halfopen" -> HalfCheck(b1, t, dl)
Record(b, ok, t) == RecordD(b, ok, t, -1)

\* tryAcquirePermit
TryAcq(b, t) ==
  CASE b.st = "closed" -> [b |-> b, ev |-> <<>>, ret |-> TRUE]
    [] b.st = "open" ->
         IF t - b.openedAt >= b.odelay
         THEN LET r == Trans(b, "halfopen", t) IN
              [b |-> [r.b EXCEPT !.permitted = @ - 1], ev |-> r.ev, ret |-> TRUE]    \* HalfCap >= 1
         ELSE [b |-> b, ev |-> <<>>, ret |-> FALSE]
    [] b.st = "halfopen" ->
         IF b.permitted > 0 THEN [b |-> [b EXCEPT !.permitted = @ - 1], ev |-> <<>>, ret |-> TRUE]
         ELSE [b |-> b, ev |-> <<>>, ret |-> FALSE]

RemainingDelay(b, t) == IF b.st = "open" THEN Max(0, b.odelay - (t - b.openedAt)) ELSE 0

----------------------------------------------------------------------------
=============================================================================
