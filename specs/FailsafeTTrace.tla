--------------------------- MODULE FailsafeTTrace ---------------------------
(* Trace validation for FailsafeT: NDJSON traces recorded from the real library (every call into user code,  *)
(* every environment action, with virtual timestamps) are accepted iff some interleaving of FailsafeT's      *)
(* steps - visible ones consuming trace lines in order, silent ones in between - explains them.              *)
(* Many scenarios are concatenated: a "Config" line resets the machine, a "Quiesce" line closes a scenario   *)
(* and carries what the harness observed after everything stopped.                                           *)
EXTENDS FailsafeTProps

CONSTANT TraceFile
Trace == ndJsonDeserialize(TraceFile)

VARIABLE l      \* position in the trace (log, declared in FailsafeTProps, holds the visible events of the current scenario)
allvars == <<cfg, pol, now, xs, th, envi, acqc, l, log>>

Line == Trace[l]
\* a label is explained by the current line: same event, same instant, every field of the label present and equal
Match(lab) ==
  /\ lab.ev # "-" /\ l <= Len(Trace) /\ Line.ev = lab.ev /\ Line.t = now
  \* (a listener of a policy instance that sits at several layers of the stack cannot tell which layer called it: L = -1)
  /\ \A f \in DOMAIN lab \ {"nx", "ev"} : f \in DOMAIN Line /\ (Line[f] = lab[f] \/ (f = "L" /\ Line[f] = -1))

TraceReset ==
  /\ l <= Len(Trace) /\ Line.ev = "Config"
  /\ LET c == NormCfg(Line.cfg) IN
     /\ cfg' = c /\ pol' = InitPolOf(c) /\ now' = 0 /\ envi' = 1 /\ th' = <<>> /\ acqc' = {}
     /\ xs' = [x \in 1..c.nx |-> Dummy]
  /\ l' = l + 1 /\ log' = <<>>

TraceSilentThread == \E t \in 1..Len(th) : \E r \in Steps(St, t) : r.lab.ev = "-" /\ Apply(r) /\ UNCHANGED <<cfg, now, envi, l, log>>
TraceVisibleThread == \E t \in 1..Len(th) : \E r \in Steps(St, t) : Match(r.lab) /\ Apply(r) /\ l' = l + 1 /\ log' = Append(log, Line) /\ UNCHANGED <<cfg, now, envi>>
TraceEnv == \E r \in EnvSteps(St) : Match(r.lab) /\ Apply(r) /\ envi' = envi + 1 /\ l' = l + 1 /\ log' = Append(log, Line) /\ UNCHANGED <<cfg, now>>
TraceAdvance == Advance /\ UNCHANGED <<l, log>>
\* an observer (reader of an async result) looked at an instant at which the library had nothing to do
TraceAdvanceTo ==
  /\ l <= Len(Trace) /\ "t" \in DOMAIN Line /\ Line.t > now
  /\ ~Runnable(St) /\ ~EnvDue(St) /\ (IF Pending = {} THEN TRUE ELSE Line.t < MinOf(Pending))
  /\ now' = Line.t /\ UNCHANGED <<cfg, pol, xs, th, envi, acqc, l, log>>
TraceObserve == \E lab \in ObsLabels(St) : Match(lab) /\ l' = l + 1 /\ log' = Append(log, Line) /\ UNCHANGED <<cfg, pol, now, xs, th, envi, acqc>>

\* the scenario is over: nothing can step, nothing is pending; the harness' observations must agree with the model
TraceQuiesce ==
  /\ l <= Len(Trace) /\ Line.ev = "Quiesce"
  /\ ~Runnable(St) /\ ~EnvDue(St)
  /\ Line.live = 0 <=> AllEnded                              \* C19: goroutines of the library still alive
  /\ \A id \in DOMAIN cfg.bhmax : Line.used[id] = pol[id]    \* C06: permits in use as probed through TryAcquirePermit
  \* C07 / C09: the context each invocation ran under is cancelled afterwards exactly when the model's copy is (a Timeout that
  \* did not fire, a hedge's winner: not cancelled; timed-out attempts, hedge losers, cancelled executions: cancelled)
  /\ \A x \in 1..Len(Line.ctxs) : \A k \in 1..Len(Line.ctxs[x]) :
        k <= Len(xs[x].callobj) /\ Line.ctxs[x][k] = Canceled(xs[x], xs[x].callobj[k])
  \* C04: breaker state and, when half-open, the trial permits left (probed through TryAcquirePermit) agree with the model
  /\ \A id \in DOMAIN Line.cb : Line.cb[id].state = pol[id].st /\ (pol[id].st = "halfopen" => Line.cb[id].permits = pol[id].permitted)
  \* C11: what the cache holds afterwards
  /\ ("caches" \in DOMAIN Line => \A id \in DOMAIN Line.caches : SetOf(Line.caches[id]) = pol[id])
  \* C16: OnRateLimitExceeded only for real refusals (the model counts the spurious ones of StaleLastErrorOnCancelledWait)
  /\ (IF \A x \in 1..Len(xs) : xs[x].spurious = 0 THEN TRUE ELSE PrintT(<<"PROPVIOL", "C16", l>>))
  /\ (IF C04_OK THEN TRUE ELSE PrintT(<<"PROPVIOL", "C04", l>>))
  /\ (IF C15_OK THEN TRUE ELSE PrintT(<<"PROPVIOL", "C15", l>>))
  \* property predicates on the real trace: a failure is reported (with the line number) and validation goes on
  /\ (IF C08_OK THEN TRUE ELSE PrintT(<<"PROPVIOL", "C08", l>>))
  /\ (IF C06_OK THEN TRUE ELSE PrintT(<<"PROPVIOL", "C06", l>>))
  /\ (IF C09_OK THEN TRUE ELSE PrintT(<<"PROPVIOL", "C09", l>>))
  /\ l' = l + 1 /\ UNCHANGED <<cfg, pol, now, xs, th, envi, acqc, log>>

TraceInit ==
  /\ l = 1 /\ now = 0 /\ envi = 1 /\ th = <<>> /\ xs = <<>> /\ pol = <<>> /\ acqc = {}
  /\ cfg = [stack |-> <<>>, fns |-> <<>>, env |-> <<>>, nx |-> 0, tld |-> 0, asyncFix |-> FALSE, bhmax |-> <<>>, fnDefault |-> [d |-> 0, r |-> "R2", e |-> Nil, coop |-> FALSE]]
  /\ TLCSet(1, 1) /\ log = <<>>

\* every line explained: say so (the orchestrator looks for this line) and stop this branch
TraceDone == l = Len(Trace) + 1 /\ PrintT("TRACE-ACCEPTED") /\ l' = l + 1 /\ UNCHANGED <<cfg, pol, now, xs, th, envi, acqc, log>>

TraceNext == TraceReset \/ TraceSilentThread \/ TraceVisibleThread \/ TraceEnv \/ TraceAdvance \/ TraceAdvanceTo \/ TraceObserve \/ TraceQuiesce \/ TraceDone
TraceSpec == TraceInit /\ [][TraceNext]_allvars

Progress == TLCSet(1, IF TLCGet(1) < l THEN l ELSE TLCGet(1))
\* diagnosis run (after a rejection): print every new high-water mark of the trace position
ProgressPrint == IF TLCGet(1) < l THEN PrintT(<<"HWM", l>>) /\ TLCSet(1, l) ELSE TRUE
TraceAccepted == TLCGet(1) = Len(Trace) + 1
\* stop as soon as one interleaving has explained the whole file (reported by TLC as a violation of this "invariant")
NotDone == l <= Len(Trace)
=============================================================================
