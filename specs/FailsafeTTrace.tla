--------------------------- MODULE FailsafeTTrace ---------------------------
(* Trace validation for FailsafeT: NDJSON traces recorded from the real library (every call into user code,  *)
(* every environment action, with virtual timestamps) are accepted iff some interleaving of FailsafeT's      *)
(* steps - visible ones consuming trace lines in order, silent ones in between - explains them.              *)
(* Many scenarios are concatenated: a "Config" line resets the machine, a "Quiesce" line closes a scenario   *)
(* and carries what the harness observed after everything stopped.                                           *)
EXTENDS FailsafeT, SequencesExt

CONSTANT TraceFile
Trace == ndJsonDeserialize(TraceFile)

VARIABLE l
allvars == <<cfg, pol, now, xs, th, envi, l>>

Line == Trace[l]
\* a label is explained by the current line: same event, same instant, every field of the label present and equal
Match(lab) ==
  /\ lab.ev # "-" /\ l <= Len(Trace) /\ Line.ev = lab.ev /\ Line.t = now
  /\ \A f \in DOMAIN lab \ {"nx", "ev"} : f \in DOMAIN Line /\ Line[f] = lab[f]

SetOf(seq) == {seq[j] : j \in 1..Len(seq)}
NormDesc(d) ==
  CASE d.k = "retry" -> [d EXCEPT !.h = SetOf(d.h), !.a = SetOf(d.a)]
    [] d.k = "fb" -> [d EXCEPT !.h = SetOf(d.h)]
    [] d.k = "cb" -> [d EXCEPT !.h = SetOf(d.h)]
    [] d.k = "hg" -> [d EXCEPT !.c = SetOf(d.c)]
    [] OTHER -> d
NormCfg(c) == [c EXCEPT !.stack = [j \in 1..Len(c.stack) |-> NormDesc(c.stack[j])]]

Dummy == [objs |-> <<>>, last |-> <<>>, cres |-> NilPR, att |-> 0, ret |-> 0, hdg |-> 0, exe |-> 0, calls |-> 0, t0 |-> 0,
          rs |-> <<>>, final |-> NilPR, returned |-> FALSE, async |-> FALSE, cancel1 |-> FALSE]

InitPolOf(c) ==
  LET ids == {c.stack[j].id : j \in {jj \in 1..Len(c.stack) : c.stack[jj].k \in {"cb", "bh"}}} IN
  [id \in ids |-> LET d == c.stack[CHOOSE j \in 1..Len(c.stack) : c.stack[j].k \in {"cb", "bh"} /\ c.stack[j].id = id] IN
                  IF d.k = "cb" THEN BO(d.cfg)!NewClosed ELSE 0]

TraceReset ==
  /\ l <= Len(Trace) /\ Line.ev = "Config"
  /\ LET c == NormCfg(Line.cfg) IN
     /\ cfg' = c /\ pol' = InitPolOf(c) /\ now' = 0 /\ envi' = 1 /\ th' = <<>>
     /\ xs' = [x \in 1..c.nx |-> Dummy]
  /\ l' = l + 1

TraceSilentThread == \E t \in 1..Len(th) : \E r \in Steps(St, t) : r.lab.ev = "-" /\ Apply(r) /\ UNCHANGED <<cfg, now, envi, l>>
TraceVisibleThread == \E t \in 1..Len(th) : \E r \in Steps(St, t) : Match(r.lab) /\ Apply(r) /\ l' = l + 1 /\ UNCHANGED <<cfg, now, envi>>
TraceEnv == \E r \in EnvSteps(St) : Match(r.lab) /\ Apply(r) /\ envi' = envi + 1 /\ l' = l + 1 /\ UNCHANGED <<cfg, now>>
TraceAdvance == Advance /\ UNCHANGED l

\* the scenario is over: nothing can step, nothing is pending; the harness' observations must agree with the model
AllEnded == \A t \in 1..Len(th) : th[t].mode = "end"
TraceQuiesce ==
  /\ l <= Len(Trace) /\ Line.ev = "Quiesce"
  /\ ~Runnable(St) /\ ~EnvDue(St)
  /\ Line.live = 0 <=> AllEnded                              \* C19: goroutines of the library still alive
  /\ \A id \in DOMAIN cfg.bhmax : Line.used[id] = pol[id]    \* C06: permits in use as probed through TryAcquirePermit
  /\ l' = l + 1 /\ UNCHANGED <<cfg, pol, now, xs, th, envi>>

TraceInit ==
  /\ l = 1 /\ now = 0 /\ envi = 1 /\ th = <<>> /\ xs = <<>> /\ pol = <<>>
  /\ cfg = [stack |-> <<>>, fns |-> <<>>, env |-> <<>>, nx |-> 0, tld |-> 0, asyncFix |-> FALSE, bhmax |-> <<>>, fnDefault |-> [d |-> 0, r |-> "R2", e |-> Nil, coop |-> FALSE]]
  /\ TLCSet(1, 1)

\* every line explained: say so (the orchestrator looks for this line) and stop this branch
TraceDone == l = Len(Trace) + 1 /\ PrintT("TRACE-ACCEPTED") /\ l' = l + 1 /\ UNCHANGED <<cfg, pol, now, xs, th, envi>>

TraceNext == TraceReset \/ TraceSilentThread \/ TraceVisibleThread \/ TraceEnv \/ TraceAdvance \/ TraceQuiesce \/ TraceDone
TraceSpec == TraceInit /\ [][TraceNext]_allvars

Progress == TLCSet(1, IF TLCGet(1) < l THEN l ELSE TLCGet(1))
\* diagnosis run (after a rejection): print every new high-water mark of the trace position
ProgressPrint == IF TLCGet(1) < l THEN PrintT(<<"HWM", l>>) /\ TLCSet(1, l) ELSE TRUE
TraceAccepted == TLCGet(1) = Len(Trace) + 1
\* stop as soon as one interleaving has explained the whole file (reported by TLC as a violation of this "invariant")
NotDone == l <= Len(Trace)
=============================================================================
