------------------------------- MODULE Nesting -------------------------------
(* C01: the DOCUMENTED, compositional meaning of a policy stack, independent of the machine in Failsafe.tla:     *)
(*   Eval(stk, i, sg)  =  what policy i, wrapped around policies i+1..n and the function, returns when it is      *)
(*   applied in situation sg - defined by recursion on the nesting P_i(P_{i+1}(...(fn))), each policy a function   *)
(*   of what the policy inside it returned.                                                                        *)
(* There are no Done/Success/SuccessAll flags, no program counters, no event log here: only outcomes, an           *)
(* "everything inside agreed this is a success" verdict, and the situation threaded through (state of the          *)
(* stateful policies, position in the function's outcome script, clock, per-execution retry budgets).              *)
(* Failsafe.tla's small-step machine is checked to REFINE this (FailsafeRef.tla).                                  *)
EXTENDS FailsafeBase

\* situation: [pol, k (next script entry), now, t0, script, ck, f (failures counted per retry layer), ex (budget spent per layer)]
Out(o, ok, sg) == [o |-> o, ok |-> ok, sg |-> sg]

NCacheKeyOf(p, ck) == IF ck \in {"none", "nonstring"} THEN p.key ELSE ck

RECURSIVE Eval(_, _, _), RetryLoop(_, _, _), HedgeLoop(_, _, _, _)

\* the wrapped function: the next outcome of the script
FnEval(sg) ==
  LET o == sg.script[sg.k] IN Out(Pair(o.r, o.e), TRUE, [sg EXCEPT !.k = @ + 1, !.now = @ + o.d])

\* retry: apply what is inside; a non-failure or an abort-matching outcome stops; a failure is retried while the
\* per-execution budget (count and max duration) lasts; a spent budget means ExceededError (or the last outcome), and
\* stays spent for the rest of the execution
RetryLoop(stk, i, sg0) ==
  LET p == stk[i]   in == Eval(stk, i + 1, sg0)   sg == in.sg   o == in.o IN
  IF sg0.ex[i] THEN in
  ELSE IF ~IsFailureX(p.h, o.r, o.e) THEN in
  ELSE LET f == sg.f[i] + 1
           elapsed == sg.now - sg.t0
           spent == (p.max # -1 /\ f > p.max) \/ (p.maxd # 0 /\ elapsed > p.maxd)
           aborts == AbortsCode(p.a, o.r, o.e)
           sg1 == [sg EXCEPT !.f[i] = f, !.ex[i] = spent]
           base == RetryDelayOf(p, o.r, o.e)
           dl0 == IF p.maxd # 0 THEN (IF base < p.maxd - elapsed THEN base ELSE p.maxd - elapsed) ELSE base
           dl == IF dl0 < 0 THEN 0 ELSE dl0
       IN IF spent /\ ~p.rlf THEN Out(Pair("R0", Exceeded(o.r, o.e)), FALSE, sg1)
          ELSE IF aborts \/ spent \/ p.max = 0 THEN Out(o, FALSE, sg1)
          ELSE RetryLoop(stk, i, [sg1 EXCEPT !.now = @ + dl])

\* hedge (sequential reading: an attempt that answers before the delay): the first cancel-matching result, else the last one
HedgeLoop(stk, i, sg0, n) ==
  LET p == stk[i]   in == Eval(stk, i + 1, sg0) IN
  IF (p.c = {}) \/ AbortsCode(p.c, in.o.r, in.o.e) \/ n = p.maxh + 1 THEN in
  ELSE HedgeLoop(stk, i, [in.sg EXCEPT !.now = @ + p.delay], n + 1)

Eval(stk, i, sg) ==
  IF i = Len(stk) + 1 THEN FnEval(sg)
  ELSE
  LET p == stk[i] IN
  CASE p.k = "retry" -> RetryLoop(stk, i, sg)
    [] p.k = "hg" -> HedgeLoop(stk, i, sg, 1)
    [] p.k = "cb" ->
         \* refuses with ErrOpen, or lets the attempt through and records how it went
         LET a == BO(p.cfg)!TryAcq(sg.pol[p.id], sg.now) IN
         IF ~a.ret THEN Out(Pair("R0", Leaf("ErrOpen")), FALSE, [sg EXCEPT !.pol[p.id] = a.b])
         ELSE LET in == Eval(stk, i + 1, [sg EXCEPT !.pol[p.id] = a.b])
                  failed == IsFailureX(p.h, in.o.r, in.o.e)
                  r == BO(p.cfg)!RecordD(in.sg.pol[p.id], ~failed, in.sg.now, IF failed THEN DfnOf(p) ELSE -1)
              IN Out(in.o, in.ok /\ ~failed, [in.sg EXCEPT !.pol[p.id] = r.b])
    [] p.k = "rl" ->
         \* m permits per period; a refusal costs nothing
         LET st == RlRoll(p, sg.pol[p.id], sg.now) IN
         IF st.left = 0 THEN Out(Pair("R0", Leaf("RateExceeded")), FALSE, [sg EXCEPT !.pol[p.id] = st])
         ELSE Eval(stk, i + 1, [sg EXCEPT !.pol[p.id] = [st EXCEPT !.left = @ - 1]])
    [] p.k = "bh" ->
         IF sg.pol[p.id] >= p.max THEN Out(Pair("R0", Leaf("ErrFull")), FALSE, sg)
         ELSE LET in == Eval(stk, i + 1, [sg EXCEPT !.pol[p.id] = @ + 1]) IN
              Out(in.o, in.ok, [in.sg EXCEPT !.pol[p.id] = @ - 1])
    [] p.k = "cache" ->
         LET key == NCacheKeyOf(p, sg.ck)
             hit == IF key = "" THEN {} ELSE {e \in sg.pol[p.id] : e.k = key} IN
         IF hit # {} THEN Out(Pair((CHOOSE e \in hit : TRUE).v, Nil), TRUE, sg)
         ELSE LET in == Eval(stk, i + 1, sg)
                  cacheable == (p.ifc = {} /\ IsNil(in.o.e)) \/ (\E c \in p.ifc : MatchesX(c, in.o.r, in.o.e)) IN
              IF cacheable /\ key # ""
              THEN Out(in.o, in.ok, [in.sg EXCEPT !.pol[p.id] = {e \in @ : e.k # key} \cup {[k |-> key, v |-> in.o.r]}])
              ELSE in
    [] p.k = "to" ->
         \* (never fires in the sequential reading) only a timeout error counts as its failure
         LET in == Eval(stk, i + 1, sg) IN Out(in.o, in.ok /\ ~IsX(in.o.e, "TimeoutExceeded"), in.sg)
    [] p.k = "fb" ->
         \* replaces exactly the failures it handles; its own output decides whether it succeeded
         LET in == Eval(stk, i + 1, sg) IN
         IF IsFailureX(p.h, in.o.r, in.o.e) THEN Out(Pair(p.fr, p.fe), ~IsFailureX(p.h, p.fr, p.fe), in.sg)
         ELSE in
=============================================================================
