---------------------------- MODULE FailsafeTMC ----------------------------
(* Model checking of FailsafeT on its own: TLC explores EVERY schedule (every interleaving of thread steps at the same  *)
(* instant, every choice among ready select cases) of a small set of timed scenarios, keeps the visible labels in `log` *)
(* and evaluates the property predicates and the model-level invariants in every quiescent state.                        *)
EXTENDS FailsafeTProps

CONSTANT Scenarios        \* set of scenario records (same shape as the Config line of a trace)
mcvars == <<cfg, pol, now, xs, th, envi, acqc, log>>

MCInit ==
  \E c0 \in Scenarios :
    LET c == NormCfg(c0) IN
    /\ cfg = c /\ pol = InitPolOf(c) /\ now = 0 /\ envi = 1 /\ th = <<>> /\ acqc = {}
    /\ xs = [x \in 1..c.nx |-> Dummy] /\ log = <<>>

Stamp(lab) == lab @@ [t |-> now]
MCThread == \E t \in 1..Len(th) : \E r \in Steps(St, t) :
              /\ Apply(r) /\ log' = (IF r.lab.ev = "-" THEN log ELSE Append(log, Stamp(r.lab))) /\ UNCHANGED <<cfg, now, envi>>
MCEnv == \E r \in EnvSteps(St) : Apply(r) /\ envi' = envi + 1 /\ log' = Append(log, Stamp(r.lab)) /\ UNCHANGED <<cfg, now>>
MCAdvance == Advance /\ UNCHANGED log
\* a caller's Get on an async result returns once the channel is closed
MCReturn == \E x \in 1..Len(xs) :
              /\ xs[x].objs # <<>> /\ xs[x].async /\ xs[x].closed
              /\ ~\E i \in 1..Len(log) : log[i].ev = "Return" /\ log[i].x = x
              /\ log' = Append(log, Stamp([ev |-> "Return", x |-> x, r |-> xs[x].final.r, e |-> xs[x].final.e]))
              /\ UNCHANGED <<cfg, pol, now, xs, th, envi, acqc>>
MCNext == MCThread \/ MCEnv \/ MCAdvance \/ MCReturn
MCSpec == MCInit /\ [][MCNext]_mcvars

Quiescent == ~Runnable(St) /\ ~EnvDue(St) /\ Pending = {} /\ envi > Len(cfg.env)
             /\ \A x \in 1..Len(xs) : (xs[x].objs # <<>> /\ xs[x].async /\ xs[x].closed) => \E i \in 1..Len(log) : log[i].ev = "Return" /\ log[i].x = x

\* C14 / C19 on the model: no schedule leaves a thread behind (blocked forever or still running) once nothing can happen
MC_NoStuckThread == Quiescent => AllEnded
\* C06: permits in use at quiescence are exactly the standalone ones still held
StandaloneHeld(id) == Cardinality({i \in 1..Len(log) : log[i].ev \in {"BhTake", "BhAcquired"} /\ log[i].ok}) - Cardinality({i \in 1..Len(log) : log[i].ev = "BhReleaseCall"})
MC_Conservation == Quiescent => \A id \in DOMAIN cfg.bhmax : pol[id] = StandaloneHeld(id)
\* C04: every admitted trial gave its permit back
MC_TrialPermits == Quiescent => \A id \in CbIds : pol[id].st = "halfopen" =>
                      pol[id].permitted >= (LET d == cfg.stack[CHOOSE j \in 1..Len(cfg.stack) : cfg.stack[j].k = "cb" /\ cfg.stack[j].id = id] IN
                                            IF d.cfg.scap # 0 THEN d.cfg.scap ELSE IF d.cfg.fexec # 0 THEN d.cfg.fexec ELSE d.cfg.fcap)
\* every started execution returns
MC_AllReturn == Quiescent => \A x \in 1..cfg.nx : xs[x].objs # <<>> => xs[x].returned
MC_C08 == Quiescent => C08_OK
MC_C06 == C06_OK
MC_C09 == Quiescent => C09_OK
MC_C04 == Quiescent => C04_OK
\* C07 (a lone Timeout): exclusive outcome, never early, listener exactly when ErrExceeded is returned
MC_C07 ==
  (Quiescent /\ Len(cfg.stack) = 1 /\ cfg.stack[1].k = "to") =>
    \A x \in 1..cfg.nx :
      LET I == 1..Len(log)
          rets == {i \in I : log[i].ev = "Return" /\ log[i].x = x}
          lst == {i \in I : log[i].ev = "OnTimeoutExceeded" /\ log[i].x = x}
          st == {i \in I : log[i].ev = "Start" /\ log[i].x = x}
          ends == {i \in I : log[i].ev = "FnEnd" /\ log[i].x = x} IN
      rets # {} =>
        LET R == log[CHOOSE i \in rets : TRUE] IN
        /\ (R.e.op = "TimeoutExceeded") <=> (Cardinality(lst) = 1)
        /\ Cardinality(lst) <= 1
        /\ \A i \in lst : log[i].t >= log[CHOOSE j \in st : TRUE].t + cfg.stack[1].limit               \* never early
        /\ (R.e.op # "TimeoutExceeded" => \E i \in ends : log[i].r = R.r /\ log[i].e = R.e)             \* inner result unchanged
        /\ (R.e.op = "TimeoutExceeded" =>
              LET tl == CHOOSE j \in lst : TRUE IN \A i \in ends : (i > tl /\ log[i].t > log[tl].t + cfg.tld) => log[i].canceled)   \* cancelled for what is inside
=============================================================================
