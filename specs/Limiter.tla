------------------------------- MODULE Limiter -------------------------------
(* Rate limiter (failsafe-go ratelimiter package): smooth and bursty.                                     *)
(*                                                                                                        *)
(* Two descriptions side by side:                                                                         *)
(*  - CODE-SHAPED operators (smoothStats.acquirePermits / burstyStats.acquirePermits, one call = one      *)
(*    critical section under the stats mutex) on the state the code keeps (nextFree / avail, cur);        *)
(*  - the DEFINITION from the property text (C05) over the history variable `grants` (the instants at     *)
(*    which permits became usable, in request order): a permit is granted at the earliest instant >= the  *)
(*    request that keeps "at most one per interval slot" / "at most M per period" and request order.      *)
(* TLC checks that the code-shaped operators refine the definition on every history; the behaviours it    *)
(* emits carry the DEFINITION's answer as the expected observation, so the replay compares the real code  *)
(* with the property, not with a transcription of itself.                                                 *)
EXTENDS Integers, Sequences, FiniteSets, TLC, Json

CONSTANTS
  Kind,     \* "smooth" | "bursty"
  I,        \* smooth: interval (units)
  P, M,     \* bursty: period (units), max executions per period
  Capped,   \* bursty: TRUE = roll-over restores at most M permits (the repaired code); FALSE = as found
  Letters,  \* set of [api, k, mw] offered to the environment (mw = -1: unbounded wait)
  Ticks,    \* clock advances
  Depth

VARIABLES now, st, grants, hist
vars == <<now, st, grants, hist>>

Max(a, b) == IF a > b THEN a ELSE b
Min(a, b) == IF a < b THEN a ELSE b
RoundDown(x, m) == x - (x % m)
Exceeds(w, mw) == mw # -1 /\ w > mw

----------------------------------------------------------------------------
(* ---- code-shaped (ratelimiterstats.go) ---- *)
InitSt == IF Kind = "smooth" THEN [nextFree |-> 0] ELSE [avail |-> M, cur |-> 0]

SmoothCode(s, t, k, mw) ==
  LET req == I * k
      nn == IF t >= s.nextFree THEN RoundDown(t, I) + req ELSE s.nextFree + req
      w == Max(nn - t - I, 0)
  IN IF Exceeds(w, mw) THEN [st |-> s, wait |-> -1] ELSE [st |-> [nextFree |-> nn], wait |-> w]

BurstyCode(s, t, k, mw) ==
  LET np == t \div P
      s1 == IF s.cur < np
            THEN [cur |-> np,
                  avail |-> IF s.avail < 0
                            THEN (IF Capped THEN Min(s.avail + (np - s.cur) * M, M) ELSE s.avail + (np - s.cur) * M)
                            ELSE M]
            ELSE s
  IN IF k > s1.avail
     THEN LET toNext == (s1.cur + 1) * P - t
              deficit == k - s1.avail
              ap0 == deficit \div M
              ap == IF deficit % M = 0 THEN ap0 - 1 ELSE ap0
              w == toNext + ap * P
          IN IF Exceeds(w, mw) THEN [st |-> s1, wait |-> -1]
             ELSE [st |-> [s1 EXCEPT !.avail = @ - k], wait |-> w]
     ELSE [st |-> [s1 EXCEPT !.avail = @ - k], wait |-> 0]

Code(s, t, k, mw) == IF Kind = "smooth" THEN SmoothCode(s, t, k, mw) ELSE BurstyCode(s, t, k, mw)

\* k single unbounded requests at the same instant through the code-shaped operator: final state and the k instants
RECURSIVE CodeSingles(_, _, _)
CodeSingles(s, t, k) ==
  IF k = 0 THEN [st |-> s, inst |-> <<>>]
  ELSE LET r == Code(s, t, 1, -1)   rest == CodeSingles(r.st, t, k - 1) IN
       [st |-> rest.st, inst |-> <<t + r.wait>> \o rest.inst]

----------------------------------------------------------------------------
(* ---- the definition (property text) ---- *)
SlotOf(x) == IF Kind = "smooth" THEN x \div I ELSE x \div P
PerSlot == IF Kind = "smooth" THEN 1 ELSE M
SlotStart(j) == IF Kind = "smooth" THEN j * I ELSE j * P
CountIn(g, j) == Cardinality({i \in 1..Len(g) : SlotOf(g[i]) = j})

\* (grants are kept in request order, which the property makes non-decreasing, so the slot of the last grant is
\* full iff the PerSlot-th grant from the end is in it)
LastSlotFull(g) == Len(g) >= PerSlot /\ SlotOf(g[Len(g) - PerSlot + 1]) = SlotOf(g[Len(g)])

\* earliest usable instant for one more permit requested at t, after every earlier grant
DefOne(g, t) ==
  IF g = <<>> THEN t
  ELSE LET lastI == g[Len(g)]   ls == SlotOf(lastI) IN
       IF SlotOf(t) > ls THEN t
       ELSE IF ~LastSlotFull(g) THEN Max(t, lastI)
       ELSE SlotStart(ls + 1)

RECURSIVE DefMany(_, _, _)
DefMany(g, t, k) == IF k = 0 THEN g ELSE DefMany(Append(g, DefOne(g, t)), t, k - 1)

\* k permits at once == k single requests, waiting for the last; refused (and a no-op) iff that wait exceeds mw
DefAcquire(g, t, k, mw) ==
  LET g2 == DefMany(g, t, k)   w == g2[Len(g2)] - t IN
  IF Exceeds(w, mw) THEN [grants |-> g, wait |-> -1] ELSE [grants |-> g2, wait |-> w]

----------------------------------------------------------------------------
Init == now = 0 /\ st = InitSt /\ grants = <<>> /\ hist = <<>>

Blocking(api) == api \in {"Block", "Exec", "BlockDl"}
\* "BlockDl": a blocking acquire whose context has a deadline l.dl units away: when the wait is longer, the call returns the
\* context's error at the deadline (the reserved permits stay reserved: a cancelled wait is not a refusal)
Elapsed(l, w) == IF l.api = "BlockDl" /\ w > l.dl THEN l.dl ELSE w

Call(l) ==
  LET c == Code(st, now, l.k, l.mw)
      d == DefAcquire(grants, now, l.k, l.mw)
  IN /\ st' = c.st
     \* the log is derived from the CODE-shaped operator (k singles), so the bounds below are checks of the code's design
     /\ grants' = IF c.wait = -1 THEN grants ELSE grants \o CodeSingles(st, now, l.k).inst
     \* a blocking call returns when its wait has elapsed
     /\ now' = IF Blocking(l.api) /\ d.wait # -1 THEN now + Elapsed(l, d.wait) ELSE now
     \* expected observation = the definition's answer
     /\ hist' = Append(hist, [act |-> l.api, k |-> l.k, mw |-> l.mw, d |-> IF l.api = "BlockDl" THEN l.dl ELSE 0, wait |-> d.wait])

Tick(dd) ==
  /\ now' = now + dd /\ UNCHANGED <<st, grants>>
  /\ hist' = Append(hist, [act |-> "Tick", k |-> 0, mw |-> 0, d |-> dd, wait |-> 0])

Next == /\ Len(hist) < Depth
        /\ \/ \E l \in Letters : Call(l)
           \/ \E dd \in Ticks : Tick(dd)

Spec == Init /\ [][Next]_vars

----------------------------------------------------------------------------
(* ---- C05 ---- *)
\* never more than one permit per interval slot / M per period become usable
\* (with Ordered: no PerSlot+1 consecutive grants share a slot)
SlotBound == \A i \in 1..(Len(grants) - PerSlot) : SlotOf(grants[i]) # SlotOf(grants[i + PerSlot])
SlotBoundDirect == \A i \in 1..Len(grants) : CountIn(grants, SlotOf(grants[i])) <= PerSlot

\* grants respect request order
Ordered == \A i \in 1..(Len(grants) - 1) : grants[i] <= grants[i + 1]

\* each call is answered exactly as the definition says: same wait (or refusal), same usable instants
EarliestGrant ==
  ( \A l \in Letters :
        LET c == Code(st, now, l.k, l.mw)   d == DefAcquire(grants, now, l.k, l.mw) IN
        /\ c.wait = d.wait
        /\ (c.wait # -1 => grants \o CodeSingles(st, now, l.k).inst = d.grants) )

\* k at once == k singles, waiting for the last
BatchEquivalence ==
  ( \A l \in Letters :
        LET c == Code(st, now, l.k, -1)   s == CodeSingles(st, now, l.k) IN
        /\ c.st = s.st
        /\ now + c.wait = s.inst[l.k] )

\* a refusal leaves the limiter as if the request had never been made: nothing granted, and every request
\* that could follow at this instant is answered the same
RefusalIsNoOp ==
  ( \A l \in Letters :
        LET c == Code(st, now, l.k, l.mw) IN
        c.wait = -1 => \A l2 \in Letters : Code(c.st, now, l2.k, l2.mw).wait = Code(st, now, l2.k, l2.mw).wait )

Emit == (Len(hist) = Depth) => PrintT(ToJson(hist))
=============================================================================
