------------------------------ MODULE Classify ------------------------------
(* Outcomes (result, error term) and the documented classification rules of failsafe-go (C12).            *)
(* This module is the RULE, written from the builder documentation and the property text only; there are  *)
(* no code-shaped actions.  It is used (a) on its own to enumerate the complete truth table, one          *)
(* implementation test per row, and (b) by Failsafe.tla for every policy's IsFailure / IsAbortable.       *)
EXTENDS Integers, Sequences, FiniteSets, TLC

(* An error term is a record [op, ch]: op names the leaf or wrapper, ch is the sequence of wrapped terms.  *)
(*   nil                      no error                                                                     *)
(*   E1 E2 E3                 sentinel errors (errors.New)                                                 *)
(*   TV, TP, TX               typed errors: value-receiver type (TV{}), pointer-receiver type (&TP{}),     *)
(*                            and TX{}: another type with TV's underlying representation                   *)
(*   W(x)                     fmt.Errorf("%w", x)                 Unwrap() error                           *)
(*   WT(x)                    a custom wrapping type              Unwrap() error, itself a matchable type  *)
(*   J(x, y)                  errors.Join(x, y)                   Unwrap() []error                         *)
Leaf(op) == [op |-> op, ch |-> <<>>]
Nil == Leaf("nil")
Wrap(op, x) == [op |-> op, ch |-> <<x>>]
Join(x, y) == [op |-> "J", ch |-> <<x, y>>]
IsNil(e) == e.op = "nil"

RECURSIVE Is(_, _), TypeMatch(_, _)
\* errors.Is(e, sentinel): the error, or anything it wraps or joins, is the sentinel
Is(e, s) == e.op = s \/ \E i \in 1..Len(e.ch) : Is(e.ch[i], s)
\* HandleErrorTypes: the type of the error or of anything it wraps or joins
TypeMatch(e, T) == e.op = T \/ \E i \in 1..Len(e.ch) : TypeMatch(e.ch[i], T)

(* A condition registration is a record [t, v]:                                                            *)
(*   [t |-> "errors", v |-> "E1"]   HandleErrors(E1) / AbortOnErrors / CancelOnErrors                      *)
(*   [t |-> "types",  v |-> "TV"]   HandleErrorTypes(TV{}) ...                                             *)
(*   [t |-> "result", v |-> "R1"]   HandleResult(R1) ...                                                   *)
(*   [t |-> "if",     v |-> "p1"]   HandleIf(p1) ...     p1(r, e) == r = R1      p2(r, e) == errors.Is(e, E2) *)
Pred(v, r, e) == CASE v = "p1" -> r = "R1"
                   [] v = "p2" -> Is(e, "E2")
                   [] v = "true" -> TRUE
                   [] v = "err" -> ~IsNil(e)
                   [] OTHER -> FALSE

\* does one registration match the outcome?  (HandleResult: "only considered when a result is returned from an
\* execution, not when an error is returned")
Matches(c, r, e) ==
  CASE c.t = "errors" -> Is(e, c.v)
    [] c.t = "types" -> TypeMatch(e, c.v)
    [] c.t = "result" -> IsNil(e) /\ r = c.v
    [] c.t = "if" -> Pred(c.v, r, e)

InspectsErrors(c) == c.t \in {"errors", "types", "if"}

\* C12: an outcome is a failure exactly when ...
IsFailure(conds, r, e) ==
  IF conds = {} THEN ~IsNil(e)
  ELSE \/ \E c \in conds : Matches(c, r, e)
       \/ (~IsNil(e) /\ ~\E c \in conds : InspectsErrors(c))

\* abort / cancel: any match.  A result registration against an outcome that also carries an error is the one
\* place where the statement ("in the same way") is not explicit: both verdicts are accepted there.
AbortMatchStrict(conds, r, e) == \E c \in conds : Matches(c, r, e)
AbortMatchLoose(conds, r, e) == \E c \in conds : Matches(c, r, e) \/ (c.t = "result" /\ r = c.v)
\* "yes" | "no" | "either"
IsAbortable(conds, r, e) ==
  IF AbortMatchStrict(conds, r, e) THEN "yes" ELSE IF AbortMatchLoose(conds, r, e) THEN "either" ELSE "no"
\* hedge: none configured means cancel on any result
IsCancellable(conds, r, e) == IF conds = {} THEN "yes" ELSE IsAbortable(conds, r, e)
=============================================================================
