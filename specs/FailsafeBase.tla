---------------------------- MODULE FailsafeBase ----------------------------
(* Value-level definitions shared by the execution machines (Failsafe.tla: sequential; FailsafeT.tla: threads *)
(* and time): policy results and their flags, library error terms, classification as the code evaluates it.   *)
EXTENDS Classify

BO(c) == INSTANCE BreakerOps WITH Cfg <- c, SliceU <- 2

Pair(r, e) == [r |-> r, e |-> e]
NoLast == Pair("R0", Nil)
PR(r, e, d, s, a) == [r |-> r, e |-> e, done |-> d, succ |-> s, sall |-> a]
\* common/result.go
WithDone(pr, d, s) == [pr EXCEPT !.done = d, !.succ = s, !.sall = s /\ pr.sall]
WithFailure(pr) == [pr EXCEPT !.succ = FALSE, !.sall = FALSE]
\* internal.FailureResult
Failure(e) == PR("R0", e, TRUE, FALSE, FALSE)
Exceeded(r, e) == [op |-> "Exceeded" \o r, ch |-> <<e>>]          \* retrypolicy.ExceededError{LastResult, LastError}

\* errors.Is against the library's sentinels (ExceededError.Is(ErrExceeded))
IsX(e, s) == Is(e, s) \/ (s = "ErrExceeded" /\ (Is(e, "ExceededR0") \/ Is(e, "ExceededR1") \/ Is(e, "ExceededR2") \/ Is(e, "ExceededRF")))
MatchesX(c, r, e) == IF c.t = "errors" THEN IsX(e, c.v) ELSE Matches(c, r, e)
IsFailureX(conds, r, e) ==
  IF conds = {} THEN ~IsNil(e)
  ELSE \/ \E c \in conds : MatchesX(c, r, e)
       \/ (~IsNil(e) /\ ~\E c \in conds : InspectsErrors(c))
\* abort / cancel conditions as the code evaluates them (a result registration ignores the error)
AbortsCode(conds, r, e) == \E c \in conds : MatchesX(c, r, e) \/ (c.t = "result" /\ r = c.v)

\* a breaker's delay function: the open delay it computes for the failure that trips the breaker (units), -1: none / defer to WithDelay
DfnOf(p) == IF "dfn" \in DOMAIN p THEN p.dfn ELSE -1

\* a retry policy's delay: fixed, or (p.rdf) a delay function that reads the failure it is asked about - the most recent completed
\* attempt - from the execution: 1 unit after E1, 2 after E2, 3 after anything else
RetryDelayOf(p, r, e) == IF "rdf" \in DOMAIN p /\ p.rdf THEN (IF Is(e, "E1") THEN 1 ELSE IF Is(e, "E2") THEN 2 ELSE 3) ELSE p.dly

\* bursty rate limiter used sequentially without waiting: m permits per period of `per` units (0: one endless period),
\* periods counted from the limiter's creation at time 0; state = [per: current period, left: permits left in it]
RlRoll(p, st, now) == LET pi == IF p.per = 0 THEN 0 ELSE now \div p.per IN
                      IF pi > st.per THEN [per |-> pi, left |-> p.m] ELSE st
=============================================================================
