---------------------------- MODULE LimiterConc ----------------------------
(* C05 under CONCURRENT callers (implementation -> specification).  N goroutines call TryReservePermit(mw) (or     *)
(* TryAcquirePermit) on one limiter at the same virtual instant; a recorded "Round" line carries the instant, N, mw  *)
(* and the multiset of answers (the granted waits, sorted).  Whatever order the limiter served them in, the property *)
(* (Limiter.tla's DEFINITION: earliest usable instant per permit, refusal = no-op) fixes the answers: the waits of    *)
(* the definition applied to N single requests one after the other - every linearization gives the same multiset.   *)
(* A refusal that costs a permit, a permit granted twice, or a lost update under contention changes a later round.   *)
EXTENDS Integers, Sequences, TLC, Json

CONSTANTS Kind, I, P, M, TraceFile
Trace == ndJsonDeserialize(TraceFile)
Lim == INSTANCE Limiter WITH Capped <- TRUE, Letters <- {}, Ticks <- {}, Depth <- 0, now <- 0, st <- 0, grants <- <<>>, hist <- <<>>

VARIABLES l, g, bad
cvars == <<l, g, bad>>
Ev == Trace[l]

\* n single requests at instant t, one after the other: the waits granted (once one is refused, so are the rest)
RECURSIVE Batch(_, _, _, _)
Batch(gr, t, mw, n) ==
  IF n = 0 THEN [g |-> gr, w |-> <<>>]
  ELSE LET d == Lim!DefAcquire(gr, t, 1, mw) IN
       IF d.wait = -1 THEN [g |-> gr, w |-> <<>>]
       ELSE LET r == Batch(d.grants, t, mw, n - 1) IN [g |-> r.g, w |-> <<d.wait>> \o r.w]

\* a new limiter
ConcReset == l <= Len(Trace) /\ Ev.ev = "Reset" /\ g' = <<>> /\ bad' = FALSE /\ l' = l + 1
ConcRound ==
  /\ l <= Len(Trace) /\ Ev.ev = "Round"
  /\ LET b == Batch(g, Ev.t, Ev.mw, Ev.n) IN
     IF bad THEN UNCHANGED <<g, bad>>                       \* (after a reported disagreement the rest of that limiter's rounds is skipped)
     ELSE IF b.w = Ev.waits THEN g' = b.g /\ bad' = FALSE
     ELSE PrintT(<<"LVIOL", l, b.w>>) /\ g' = b.g /\ bad' = TRUE
  /\ l' = l + 1

ConcInit == l = 1 /\ g = <<>> /\ bad = FALSE /\ TLCSet(1, 1)
ConcNext == ConcReset \/ ConcRound
TraceSpec == ConcInit /\ [][ConcNext]_cvars
TraceAccepted == TLCGet("stats").diameter - 1 = Len(Trace)
Progress == TLCSet(1, IF TLCGet(1) < l THEN l ELSE TLCGet(1))
=============================================================================
